// C03: client-to-location mapping is longest-prefix match over declared subnets.
//
// Level A (pure, deep): every set of <=3 (quick: size 3 over a 40-prefix part; thorough <=4) subnets over a 72-prefix
// alphabet x 2 locations -> real codec/Rearranger -> range-point table, read by
// predecessor search as rdbdriver.GetLocationByMap reads it, for 270 clients,
// against a brute-force longest-prefix oracle.
// Level B (real stores): every set of <=2 subnets compiled by the real compilers
// to CDB (combined and per-family prefix-length sets), RocksDB v1 and v2 keys, in
// several surroundings, looked up through db.Reader.ResolverLocation/EcsLocation.
// Level C (name -> map): every set of <=3 map declarations over 10 owners (one of
// them 11 labels deep) x 2 map kinds x a query-name universe that includes deep
// (9..14, 35, 123 labels) and maximal-length names, on the three stores.
package main

import (
	"fmt"
	"os"
	"runtime/debug"
	"sort"
	"strings"
	"sync"

	"verifharness/dnsfix"
	"verifharness/vlib"
)

func main() {
	r := vlib.Start("C03")
	debug.SetGCPercent(400)
	dir, clean := vlib.Scratch("c03")
	dnsfix.Quiet(dir)
	only := os.Getenv("C03_ONLY") // debugging aid: "A", "B", "C" or "" (all)
	for i, a := range os.Args {
		if a == "--replay" && i+1 < len(os.Args) {
			clean()
			runReplay(os.Args[i+1])
		}
	}

	alpha := buildAlphabet(4)
	clients := buildClients(alpha)

	// All bounds are spatial and fixed per tier: nothing depends on the clock, two
	// runs enumerate exactly the same cases.
	var la *levelA
	kA := r.Pick(3, 4)
	if only == "" || only == "A" {
		// quick: sets of <=2 over the whole alphabet, sets of 3 over the members of
		// the trees of depth <=3 (plus defaults and edges); thorough: <=4 over all
		allowed := make([][]bool, kA+1)
		small := map[string]bool{}
		for _, p := range buildAlphabet(3) {
			small[p.text] = true
		}
		for size := range allowed {
			allowed[size] = make([]bool, len(alpha))
			for i := range alpha {
				allowed[size][i] = r.Thorough() || size <= 2 || small[alpha[i].text]
			}
		}
		la = newLevelA(r, alpha, clients)
		la.run(kA, allowed)
		la.samples()
	}
	var lc *levelC
	if only == "" || only == "C" {
		lc = runLevelC(r, dir)
	}
	var lb *levelB
	if only == "" || only == "B" {
		lb = runLevelB(r, dir)
	}
	clean()
	dumpFPs()

	var states, evals, nontriv int64
	if la != nil {
		states += la.sets
		evals += la.evals
		nontriv += la.nontrivial
		r.Set("A_subnet_alphabet", len(alpha))
		r.Set("A_locations", len(locNames))
		r.Set("A_max_set_size", kA)
		r.Set("A_clients", len(clients))
		r.Set("A_sets", la.sets)
		r.Set("A_bound", map[string]string{"quick": "sets of <=2 over all 72 prefixes; sets of 3 over the 40 prefixes of the defaults, edges and trees of depth <=3", "thorough": "sets of <=4 over all 72 prefixes"}[r.Tier])
		r.Set("A_sets_by_size", fmt.Sprint(la.setsBySize[1:kA+1]))
		r.Set("A_evaluations", la.evals)
		r.Set("A_expected_some_location", la.nontrivial)
		r.Set("A_failing_evaluations", la.failing)
	}
	if lb != nil {
		states += lb.dbs
		evals += lb.evals
		nontriv += lb.nontrivial
		r.Set("B_subnet_alphabet", lb.nAlpha)
		r.Set("B_clients", lb.nClients)
		r.Set("B_sets", lb.nSets)
		r.Set("B_cases", lb.nCases)
		r.Set("B_cases_also_on_rocksdb", lb.nRdbCases)
		r.Set("B_rocksdb_selection", lb.rdbRule)
		r.Set("B_databases_compiled", lb.dbs)
		r.Set("B_evaluations", lb.evals)
		r.Set("B_expected_some_location", lb.nontrivial)
		r.Set("B_failing_evaluations", lb.failing)
		r.Set("B_stores", "cdb-combined, cdb-perfamily (db.SeparateBitMap), rdb-v1, rdb-v2; large maps also rdb-v1-preproc, rdb-v2-preproc (preprocessor output compiled)")
		r.Set("B_surroundings", lb.surroundings)
		r.Set("B_large_maps", lb.nLarge)
		r.Set("B_large_maps_min_range_points", lb.largeMinPoints)
		r.Set("B_large_map_list", lb.largeDoc)
	}
	if lc != nil {
		states += lc.dbs
		evals += lc.evals
		nontriv += lc.nontrivial
		r.Set("C_declarations", lc.nDecls)
		r.Set("C_files", lc.nFiles)
		r.Set("C_files_also_on_rocksdb", lc.nRdbFiles)
		r.Set("C_file_rule", lc.fileRule)
		r.Set("C_query_names", lc.nNames)
		r.Set("C_query_name_universe", strings.Join(queryDisp, " "))
		r.Set("C_databases_compiled", lc.dbs)
		r.Set("C_evaluations", lc.evals)
		r.Set("C_expected_some_map", lc.nontrivial)
		r.Set("C_failing_evaluations", lc.failing)
	}
	r.Set("states", states)
	r.Set("transitions", evals)
	r.Set("evaluations", evals)
	r.Set("traces_validated_against_impl", evals)
	r.Set("distinct_nontrivial", nontriv)
	r.Set("rule", "A: all sets of <=k distinct subnets (quick: <=2 over the whole alphabet and 3 over its 40-prefix part with trees of depth <=3; thorough: <=4 over the whole alphabet; each tagged with one of 2 locations, all taggings) from the alphabet {0.0.0.0/0, ::/0, 8 address-space edges, the 31-node binary tree /6../10 under 8.0.0.0/6, the 31-node tree /30../34 under 2001:db8::/30}; each set goes as '%' lines through the real Codec (Rnet.UnmarshalText, Accum, SubnetRanger, Rearranger.AddLocation/Rearrange, Rrangepoint.MarshalMap) and the resulting range-point keys are read by predecessor search as GetLocationByMap does, for every client of the universe (first/last/just-outside addresses of every alphabet prefix at lengths own-1, own, own+1, full; masked). B: all sets of <=2 subnets (quick: over the 24-prefix sub-alphabet with trees of depth 2; thorough: the full alphabet; taggings up to renaming) compiled by cdb.CreateCDBFromReader into CDB (read with the combined and with the per-family prefix-length sets) inside the surroundings listed under B_surroundings, and a fixed sub-space of these cases (B_rocksdb_selection) compiled by rdb.Compile to RocksDB v1 and v2 keys and looked up with Reader.ResolverLocation (full-length clients) and Reader.EcsLocation (all clients); plus the fixed large maps of B_large_map_list (each more than 100 range points: 60 disjoint IPv4 /24s, 130 adjacent /24s inside a /8 and a default route, 60 disjoint IPv6 /48s under ::/0, 120 nested subnets of both families) compiled to all four stores and, through the preprocessor (dnsdata.Codec.Preprocess as cmd/dnsrocks-preproc configures it, then rdb.Compile of its output), to RocksDB v1 and v2 again, and looked up for the first/last/just-outside addresses of every member at lengths own-1, own, own+1, full (reported per map, not minimised). C: files of map declarations over 10 owners (root, com, example.com, a.example.com and an 11-label name, each exact and wildcard) x {M,8} as listed under C_file_rule, looked up for every query name of C_query_name_universe (13 shallow names; a ladder of 9..14-label names below a.example.com through the deep owner, a sibling of the deep owner, a 35-label name, the 255-byte names of 123 labels and of 63+63+63+47-byte labels, a 34-label ip6.arpa name). states = subnet sets (A) + compiled databases (B, C); transitions = evaluations = client (or name) lookups compared with the oracle; nontrivial = lookups for which the oracle expects a location (A, B) or a map (C). Only minimal failing cases are reported: a set whose failure (same client, same kind of disagreement) is not shown by an enumerated proper subset on the same store. No wall-clock bound is used anywhere; exhaustive=true means every case of the stated space was executed.")
	r.Assume = []string{
		"IPv6-family clients inside ::ffff:0:0/96 with prefix length >=96 are not generated (the statement does not say which family they belong to)",
		"level B enumerates location taggings up to renaming of the two locations (level A enumerates all taggings)",
		"RocksDB itself (SeekForPrev, byte-wise comparator) and CDB hashing are executed, not modelled; level A assumes the byte-wise key order RocksDB uses",
		"no two '%' lines of one map declare the same subnet (0.0.0.0/0 and ::ffff:0:0/96 count as the same subnet)",
	}
	r.Finish()
}

var (
	allFPmu sync.Mutex
	allFP   []string
)

// violate records a violation; with C03_DUMP=<file> every fingerprint is also
// written to that file (debugging aid, no effect on the verdict).
func violate(r *vlib.Run, fp, detail string, replay interface{}) {
	r.Violate(fp, detail, replay)
	if os.Getenv("C03_DUMP") != "" {
		allFPmu.Lock()
		allFP = append(allFP, fp)
		allFPmu.Unlock()
	}
}

func dumpFPs() {
	if p := os.Getenv("C03_DUMP"); p != "" {
		sort.Strings(allFP)
		os.WriteFile(p, []byte(strings.Join(allFP, "\n")+"\n"), 0o644)
	}
}
