package main

// Level A: the range-point table the compiler derives from a set of subnets
// (Rnet.UnmarshalText -> Accum.update -> SubnetRanger.addSubnet ->
// Rearranger.AddLocation -> Rearrange -> Rrangepoint.MarshalMap, all real code,
// driven exactly as rdb.Compile drives the codec) interpreted by predecessor
// search the way rdbdriver.GetLocationByMap reads it, against the oracle.

import (
	"bytes"
	"fmt"
	"net"
	"sort"
	"strings"
	"sync"
	"sync/atomic"

	"github.com/facebookincubator/dns/dnsrocks/dnsdata"

	"verifharness/vlib"
)

const (
	kWantNoneGotLoc = iota
	kWantLocGotNone
	kWrongLoc
	kError
	nKinds
)

var kindNames = [nKinds]string{"want-none-got-loc", "want-loc-got-none", "wrong-loc", "error"}

const (
	gotNone  = -1
	gotError = -2
	gotOther = -3 // a location that is none of the declared ones
)

type point struct {
	key [17]byte // ip16 + mask length byte, as stored after marker+map
	val []byte
	n   int // number of values stored under this key (a multi-value store appends)
}

// rangePoints runs the real codec on the set and returns the sorted table.
func rangePoints(set []decl) ([]point, error) {
	codec := new(dnsdata.Codec)
	codec.Acc.Ranger.Enable()
	codec.Acc.NoPrefixSets = true
	codec.NoRnetOutput = true
	for _, d := range set {
		line := []byte("%" + locNames[d.loc] + "," + d.p.text + ",m1")
		recs, err := codec.ConvertLn(line)
		if err != nil {
			return nil, fmt.Errorf("line %q: %v", line, err)
		}
		if len(recs) != 0 {
			return nil, fmt.Errorf("line %q produced %d records with NoRnetOutput", line, len(recs))
		}
	}
	recs, err := codec.Acc.MarshalMap()
	if err != nil {
		return nil, err
	}
	prefix := []byte(dnsdata.RangePointKeyMarker + "m1")
	pts := make([]point, 0, len(recs))
	for _, r := range recs {
		if !bytes.HasPrefix(r.Key, prefix) || len(r.Key) != len(prefix)+17 {
			return nil, fmt.Errorf("unexpected accumulator record key %q", r.Key)
		}
		var p point
		copy(p.key[:], r.Key[len(prefix):])
		p.val = r.Value
		p.n = 1
		pts = append(pts, p)
	}
	sort.SliceStable(pts, func(i, j int) bool { return bytes.Compare(pts[i].key[:], pts[j].key[:]) < 0 })
	// equal keys: RocksDB appends the values under one key
	out := pts[:0]
	for _, p := range pts {
		if len(out) > 0 && out[len(out)-1].key == p.key {
			out[len(out)-1].n++
			continue
		}
		out = append(out, p)
	}
	return out, nil
}

// clientKey builds the tail (ip16 + requested mask length) of the search key the
// way rdbdriver.GetLocationByMap does from the net.IPNet that
// location.go:EcsLocation / ResolverLocation hand it.
func clientKey(c *client) [17]byte {
	bits := 8 * net.IPv4len
	if c.fam == 6 {
		bits = 8 * net.IPv6len
	}
	ipnet := net.IPNet{IP: c.ip16, Mask: net.CIDRMask(c.plen, bits)}
	var k [17]byte
	copy(k[:], ipnet.IP.To16())
	req, _ := ipnet.Mask.Size()
	ip := ipnet.IP
	if ip != nil && (len(ip) == net.IPv4len || bytes.Equal(ip[:12], []byte{0, 0, 0, 0, 0, 0, 0, 0, 0, 0, 0xff, 0xff})) {
		req += 128 - 32
	}
	k[16] = uint8(req)
	return k
}

// readPoint is the tail of GetLocationByMap: what the found record means.
func readPoint(p *point) (got int, mlen uint8, errText string) {
	if p == nil {
		return gotNone, 0, ""
	}
	if p.n != 1 {
		return gotError, 0, fmt.Sprintf("%d values under one range-point key (Invalid location length)", p.n)
	}
	switch len(p.val) {
	case 0:
		return gotNone, p.key[16], ""
	case 2:
		for i, n := range locNames {
			if string(p.val) == n {
				return i, p.key[16], ""
			}
		}
		if p.val[0] == 0 && p.val[1] == 0 {
			return gotNone, p.key[16], ""
		}
		return gotOther, p.key[16], ""
	default:
		return gotError, 0, fmt.Sprintf("Invalid location length %d", len(p.val))
	}
}

func classify(want, got int) int {
	switch {
	case got == gotError:
		return kError
	case want == got:
		return -1
	case want < 0:
		return kWantNoneGotLoc
	case got == gotNone:
		return kWantLocGotNone
	default:
		return kWrongLoc
	}
}

func pointsText(pts []point) string {
	var sb strings.Builder
	for _, p := range pts {
		loc := "null"
		if len(p.val) > 0 {
			loc = fmt.Sprintf("%q", p.val)
		}
		fmt.Fprintf(&sb, "%s mlen=%d -> %s\n", ip16Text(p.key[:16]), p.key[16], loc)
	}
	return sb.String()
}

type failBits [][]uint64 // [kind][word]

type levelA struct {
	r       *vlib.Run
	alpha   []prefix
	clients []client
	order   []int      // client indices sorted by search key
	ckeys   [][17]byte // search key per client
	words   int

	fails map[uint32]failBits // sets (of size < current level) with at least one failing client

	sets, evals, nontrivial, failing int64
	setsBySize                       [5]int64
}

func newLevelA(r *vlib.Run, alpha []prefix, clients []client) *levelA {
	a := &levelA{r: r, alpha: alpha, clients: clients, fails: map[uint32]failBits{}}
	a.ckeys = make([][17]byte, len(clients))
	a.order = make([]int, len(clients))
	for i := range clients {
		a.ckeys[i] = clientKey(&clients[i])
		a.order[i] = i
	}
	sort.SliceStable(a.order, func(x, y int) bool {
		return bytes.Compare(a.ckeys[a.order[x]][:], a.ckeys[a.order[y]][:]) < 0
	})
	a.words = (len(clients) + 63) / 64
	return a
}

func setKey(ids []int) uint32 {
	var k uint32
	for _, id := range ids {
		k = k<<8 | uint32(id+1)
	}
	return k
}

// evalSet runs one set; returns failing-client bits per kind (nil if none).
func (a *levelA) evalSet(set []decl, collect func(ci, want, got int, mlen uint8, errText string)) (failBits, []point, error) {
	if msg := preflight(set); msg != "" {
		// Rearranger panics on this set: the compiler would crash (the panic is raised in
		// a goroutine of SubnetRanger.MarshalMap). Every lookup counts as an error.
		fb := make(failBits, nKinds)
		for q := range fb {
			fb[q] = make([]uint64, a.words)
		}
		for ci := range a.clients {
			fb[kError][ci/64] |= 1 << uint(ci%64)
		}
		atomic.AddInt64(&a.sets, 1)
		atomic.AddInt64(&a.evals, int64(len(a.order)))
		atomic.AddInt64(&a.failing, int64(len(a.order)))
		return fb, []point{{n: -1, val: []byte(msg)}}, nil
	}
	pts, err := rangePoints(set)
	if err != nil {
		return nil, nil, err
	}
	var fb failBits
	j := -1
	var nontriv, failing int64
	for _, ci := range a.order {
		ck := &a.ckeys[ci]
		for j+1 < len(pts) && bytes.Compare(pts[j+1].key[:], ck[:]) <= 0 {
			j++
		}
		var p *point
		if j >= 0 {
			p = &pts[j]
		}
		got, mlen, et := readPoint(p)
		want := oracle(set, &a.clients[ci])
		if want >= 0 {
			nontriv++
		}
		if collect != nil {
			collect(ci, want, got, mlen, et)
		}
		if k := classify(want, got); k >= 0 {
			failing++
			if fb == nil {
				fb = make(failBits, nKinds)
				for q := range fb {
					fb[q] = make([]uint64, a.words)
				}
			}
			fb[k][ci/64] |= 1 << uint(ci%64)
		}
	}
	atomic.AddInt64(&a.sets, 1)
	atomic.AddInt64(&a.evals, int64(len(a.order)))
	atomic.AddInt64(&a.nontrivial, nontriv)
	atomic.AddInt64(&a.failing, failing)
	return fb, pts, nil
}

// report emits one violation per (set, kind) that has a client failing in that
// way while no proper subset of the set fails on that client in that way.
func (a *levelA) report(ids []int, set []decl, fb failBits, pts []point) {
	n := len(ids)
	sub := make([]int, 0, n)
	for k := 0; k < nKinds; k++ {
		min := append([]uint64(nil), fb[k]...)
		for m := 1; m < (1<<uint(n))-1; m++ {
			sub = sub[:0]
			for i := 0; i < n; i++ {
				if m&(1<<uint(i)) != 0 {
					sub = append(sub, ids[i])
				}
			}
			if sf, ok := a.fails[setKey(sub)]; ok {
				for w := range min {
					min[w] &^= sf[k][w]
				}
			}
		}
		first, cnt := -1, 0
		for ci := 0; ci < len(a.clients); ci++ {
			if min[ci/64]&(1<<uint(ci%64)) != 0 {
				if first < 0 {
					first = ci
				}
				cnt++
			}
		}
		if first < 0 {
			continue
		}
		c := &a.clients[first]
		want := oracle(set, c)
		var gotS string
		if len(pts) == 1 && pts[0].n == -1 {
			gotS = "a panic in the Rearranger: " + string(pts[0].val)
			pts = nil
		} else {
			ck := a.ckeys[first]
			var p *point
			for i := range pts {
				if bytes.Compare(pts[i].key[:], ck[:]) <= 0 {
					p = &pts[i]
				}
			}
			got, mlen, et := readPoint(p)
			gotS = describe(got, mlen, et)
		}
		wantS := "no location"
		if want >= 0 {
			wantS = locNames[want]
		}
		var lines []string
		for _, d := range set {
			lines = append(lines, "%"+locNames[d.loc]+","+d.p.text+",m1")
		}
		violate(a.r, "lpm-points/"+kindNames[k]+"/"+setText(set),
			fmt.Sprintf("subnets %s; client %s (first of %d clients failing this way that fail in no sub-set): longest-prefix oracle says %s, range points read by predecessor search give %s\nrange points produced by Rearranger:\n%s",
				setText(set), c.text, cnt, wantS, gotS, pointsText(pts)),
			map[string]interface{}{"level": "A", "lines": lines, "client": c.text, "want": wantS, "got": gotS})
	}
}

func describe(got int, mlen uint8, et string) string {
	switch {
	case got == gotError:
		return "error: " + et
	case got == gotNone:
		return "no location"
	case got == gotOther:
		return fmt.Sprintf("an undeclared location (mask %d)", mlen)
	default:
		return fmt.Sprintf("%s (matched mask %d)", locNames[got], mlen)
	}
}

// run enumerates all sets of size 1..k, level by level. allowed[size][p] says
// whether alphabet prefix p may be a member of sets of that size (a purely
// spatial bound: quick restricts the largest size to the shallower trees).
func (a *levelA) run(k int, allowed [][]bool) {
	nItems := len(a.alpha) * 2
	canon := canonIndex(a.alpha)
	for size := 1; size <= k; size++ {
		// tasks: the first item (size 1) or the first two items of the set
		type task struct{ i0, i1 int }
		var tasks []task
		if size == 1 {
			for i := 0; i < nItems; i++ {
				if allowed[size][i/2] {
					tasks = append(tasks, task{i, -1})
				}
			}
		} else {
			for i := 0; i < nItems; i++ {
				for j := (i/2 + 1) * 2; j < nItems; j++ {
					if allowed[size][i/2] && allowed[size][j/2] {
						tasks = append(tasks, task{i, j})
					}
				}
			}
		}
		next := map[uint32]failBits{}
		var mu sync.Mutex
		store := size < k
		vlib.ParallelFor(len(tasks), func(ti int) {
			t := tasks[ti]
			local := map[uint32]failBits{}
			ids := make([]int, 0, size)
			set := make([]decl, 0, size)
			var rec func(from int)
			visit := func() {
				fb, pts, err := a.evalSet(set, nil)
				atomic.AddInt64(&a.setsBySize[size], 1)
				if err != nil {
					violate(a.r, "lpm-points/compile-error/"+setText(set), err.Error(), map[string]interface{}{"level": "A", "set": setText(set)})
					return
				}
				if fb == nil {
					return
				}
				a.report(ids, set, fb, pts)
				if store {
					local[setKey(ids)] = fb
				}
			}
			push := func(id int) bool {
				pi := id / 2
				if !allowed[size][pi] {
					return false
				}
				for _, id2 := range ids {
					if canon[id2/2] == canon[pi] {
						return false
					}
				}
				ids = append(ids, id)
				set = append(set, decl{&a.alpha[pi], id % 2})
				return true
			}
			pop := func() { ids = ids[:len(ids)-1]; set = set[:len(set)-1] }
			rec = func(from int) {
				if len(ids) == size {
					visit()
					return
				}
				for id := from; id < nItems; id++ {
					if push(id) {
						rec((id/2 + 1) * 2)
						pop()
					}
				}
			}
			if !push(t.i0) {
				return
			}
			if t.i1 >= 0 {
				if !push(t.i1) {
					return
				}
				rec((t.i1/2 + 1) * 2)
			} else {
				rec((t.i0/2 + 1) * 2)
			}
			if len(local) > 0 {
				mu.Lock()
				for k, v := range local {
					next[k] = v
				}
				mu.Unlock()
			}
		})
		for k, v := range next {
			a.fails[k] = v
		}
	}
}

// canonIndex maps every alphabet position to the first position that declares
// the same subnet (0.0.0.0/0 and ::ffff:0:0/96 are one declaration).
func canonIndex(alpha []prefix) []int {
	first := map[string]int{}
	out := make([]int, len(alpha))
	for i := range alpha {
		c := alpha[i].canon()
		if j, ok := first[c]; ok {
			out[i] = j
		} else {
			first[c] = i
			out[i] = i
		}
	}
	return out
}

// samples evaluates a few fixed sets sequentially and records them as evidence.
func (a *levelA) samples() {
	find := func(text string) *prefix {
		for i := range a.alpha {
			if a.alpha[i].text == text {
				return &a.alpha[i]
			}
		}
		panic(text)
	}
	for _, s := range [][]decl{
		{{find("8.0.0.0/6"), 0}},
		{{find("8.0.0.0/6"), 0}, {find("9.0.0.0/8"), 1}},
		{{find("0.0.0.0/0"), 0}, {find("8.0.0.0/7"), 1}, {find("10.0.0.0/7"), 0}},
		{{find("::/0"), 1}, {find("2001:db8::/30"), 0}, {find("2001:db8::/32"), 1}},
		{{find("255.255.255.255/32"), 0}, {find("ffff::/16"), 1}},
	} {
		var res []string
		n := 0
		before := [4]int64{a.sets, a.evals, a.nontrivial, a.failing}
		_, pts, err := a.evalSet(s, func(ci, want, got int, mlen uint8, et string) {
			if want >= 0 && n < 6 {
				n++
				res = append(res, fmt.Sprintf("%s: want %s, got %s", a.clients[ci].text, locNames[want], describe(got, mlen, et)))
			}
		})
		a.sets, a.evals, a.nontrivial, a.failing = before[0], before[1], before[2], before[3] // samples are re-runs, not new cases
		if err != nil {
			continue
		}
		a.r.Sample(map[string]interface{}{"level": "A", "set": setText(s), "range_points": strings.Split(strings.TrimSpace(pointsText(pts)), "\n"), "lookups": res})
	}
}

// ip16Text prints a 16-byte address always in IPv6 notation.
func ip16Text(b []byte) string {
	var a u128
	for i := 0; i < 8; i++ {
		a.hi = a.hi<<8 | uint64(b[i])
		a.lo = a.lo<<8 | uint64(b[8+i])
	}
	return addrText(6, a)
}

// rnetOf builds the *net.IPNet that Rnet.UnmarshalText hands to the Rearranger
// for a '%' line: 16-byte address, 128-bit mask.
func rnetOf(p *prefix) *net.IPNet {
	_, n, err := net.ParseCIDR(p.text)
	if err != nil {
		panic(err)
	}
	n.IP = n.IP.To16()
	if ones, bits := n.Mask.Size(); bits < 128 {
		n.Mask = net.CIDRMask(ones+128-bits, 128)
	}
	return n
}

// preflight drives the Rearranger directly in this goroutine so that a panic in
// AddLocation/Rearrange can be observed ("" = no panic). The tables themselves
// are always taken from the codec path.
func preflight(set []decl) (msg string) {
	defer func() {
		if p := recover(); p != nil {
			msg = fmt.Sprint(p)
		}
	}()
	r := dnsdata.NewRearranger(len(set))
	for _, d := range set {
		if err := r.AddLocation(rnetOf(d.p), []byte(locNames[d.loc])); err != nil {
			return "AddLocation: " + err.Error()
		}
	}
	r.Rearrange()
	return ""
}
