package main

// --replay <file>: re-run the single case stored in a replay artefact against
// the current tree and say whether it still disagrees with the oracle.

import (
	"encoding/json"
	"fmt"
	"os"
	"strings"

	"github.com/facebookincubator/dns/dnsrocks/db"

	"verifharness/dnsfix"
	"verifharness/vlib"
)

type replayFile struct {
	Fingerprint string `json:"fingerprint"`
	Replay      struct {
		Level   string   `json:"level"`
		Lines   []string `json:"lines"`
		Client  string   `json:"client"`
		Store   string   `json:"store"`
		Path    string   `json:"path"`
		Qname   string   `json:"qname"`
		Data    string   `json:"data"`
		MapKind string   `json:"map_kind"`
	} `json:"replay"`
}

func parseClient(text string) client {
	p := parsePrefix(text)
	if strings.Contains(text, ":") && p.fam == 4 { // cannot happen for generated clients
		vlib.Infra("replay: client %s is an IPv4-mapped IPv6 client", text)
	}
	c := client{fam: p.fam, addr: p.net, plen: p.plen, text: text, full: p.plen == famBits(p.fam)}
	c.ip16 = wireECSAddress(c.fam, c.addr, c.plen)
	return c
}

// declsOfMap extracts the '%' lines of one map from data-file text.
func declsOfMap(data, mapID string) []decl {
	var out []decl
	for _, l := range strings.Split(data, "\n") {
		if !strings.HasPrefix(l, "%") {
			continue
		}
		f := strings.Split(l[1:], ",")
		if len(f) != 3 || f[2] != mapID {
			continue
		}
		p := parsePrefix(f[1])
		loc := -1
		for i, n := range locNames {
			if n == f[0] {
				loc = i
			}
		}
		if loc < 0 {
			vlib.Infra("replay: unknown location in %q", l)
		}
		out = append(out, decl{&p, loc})
	}
	return out
}

func storeByName(n string) (storeCfg, bool) {
	for _, s := range append(append([]storeCfg{}, storesPhase1...), storesPhase2...) {
		if s.name == n {
			return s, true
		}
	}
	if n == "cdb" {
		return storesC[0], true
	}
	for _, s := range storesLarge {
		if s.name == n {
			return s.storeCfg, true
		}
	}
	return storeCfg{}, false
}

func runReplay(path string) {
	b, err := os.ReadFile(path)
	if err != nil {
		vlib.Infra("replay: %v", err)
	}
	var rf replayFile
	if err := json.Unmarshal(b, &rf); err != nil {
		vlib.Infra("replay: %v", err)
	}
	dir, clean := vlib.Scratch("c03r")
	defer clean()
	dnsfix.Quiet(dir)
	rp := rf.Replay
	fail := false
	switch rp.Level {
	case "A":
		set := declsOfMap(strings.Join(rp.Lines, "\n"), "m1")
		c := parseClient(rp.Client)
		pts, err := rangePoints(set)
		if err != nil {
			vlib.Infra("replay: %v", err)
		}
		ck := clientKey(&c)
		var p *point
		for i := range pts {
			if string(pts[i].key[:]) <= string(ck[:]) {
				p = &pts[i]
			}
		}
		got, mlen, et := readPoint(p)
		want := oracle(set, &c)
		fmt.Printf("subnets %s, client %s\nrange points:\n%soracle: %d (index into %v, -1 = none); predecessor search: %s\n", setText(set), c.text, pointsText(pts), want, locNames, describe(got, mlen, et))
		fail = classify(want, got) >= 0
	case "B":
		st, ok := storeByName(rp.Store)
		if !ok {
			vlib.Infra("replay: unknown store %q", rp.Store)
		}
		c := parseClient(rp.Client)
		data := []byte(rp.Data)
		if strings.HasSuffix(rp.Store, "-preproc") {
			if data, err = preprocessText(data); err != nil {
				vlib.Infra("replay: preprocess: %v", err)
			}
		}
		p, err := dnsfix.Compile(dir, st.backend, data)
		if err != nil {
			vlib.Infra("replay: compile: %v", err)
		}
		db.SeparateBitMap = st.separate
		d, err := db.Open(p, st.backend.Driver())
		if err != nil {
			vlib.Infra("replay: open: %v", err)
		}
		q, want := qnameNoMap, -1
		if rp.Qname == "example.com" {
			q = qnameM1
			want = oracle(declsOfMap(rp.Data, "m1"), &c)
		}
		pi := 0
		if rp.Path == "ecs" {
			pi = 1
		}
		got, desc, _, panicked := lookup(d, pi, q, &c)
		d.Destroy()
		fmt.Printf("store %s, %s path, name %s, client %s\ndata:\n%soracle: %d (index into %v, -1 = none); reader: %s\n", st.name, rp.Path, rp.Qname, c.text, rp.Data, want, locNames, desc)
		fail = panicked || got == gotOther || classify(want, got) >= 0
	case "C":
		st, ok := storeByName(rp.Store)
		if !ok {
			vlib.Infra("replay: unknown store %q", rp.Store)
		}
		var decls []mdecl
		for _, l := range strings.Split(rp.Data, "\n") {
			if l == "" || l[0] == '%' {
				continue
			}
			f := strings.Split(l[1:], ",")
			k := 0
			if l[0] == '8' {
				k = 1
			}
			decls = append(decls, mdecl{owner: f[0], kind: k, id: f[1]})
		}
		kind := 0
		if rp.MapKind == "8" {
			kind = 1
		}
		clientC.ip16 = wireECSAddress(4, clientC.addr, 32)
		clientCecs.ip16 = wireECSAddress(4, clientCecs.addr, 24)
		p, err := dnsfix.Compile(dir, st.backend, []byte(rp.Data))
		if err != nil {
			vlib.Infra("replay: compile: %v", err)
		}
		d, err := db.Open(p, st.backend.Driver())
		if err != nil {
			vlib.Infra("replay: open: %v", err)
		}
		cl := &clientC
		if kind == 1 {
			cl = &clientCecs
		}
		want := mapOracle(decls, kind, rp.Qname)
		got, desc, isErr, panicked := lookupMap(d, kind, wireName(rp.Qname), cl)
		d.Destroy()
		fmt.Printf("store %s, %s maps, name %s\ndata:\n%soracle: map %q; reader: %s\n", st.name, rp.MapKind, rp.Qname, rp.Data, want, desc)
		fail = panicked || isErr || got != want
	default:
		vlib.Infra("replay: unknown level %q", rp.Level)
	}
	if fail {
		fmt.Printf("VIOLATION property=C03 replay=%s\n  fingerprint: %s (reproduced)\n", path, rf.Fingerprint)
		clean()
		os.Exit(1)
	}
	fmt.Println("C03 replay: the case agrees with the oracle on this tree")
	clean()
	os.Exit(0)
}
