package main

// Level C: the name -> map step. Every set of <=3 map declarations over
// 10 owners x {M, 8}, every query name of a universe of shallow and deep
// names, three stores.

import (
	"fmt"
	"os"
	"sort"
	"strings"
	"sync/atomic"

	"github.com/facebookincubator/dns/dnsrocks/db"

	"verifharness/dnsfix"
	"verifharness/vlib"
)

// deepOwner is an 11-label owner: the map declarations at it and at its wildcard
// put an exact and a wildcard key 8 labels below the other owners.
var deepOwner = deepLabels(8) + ".a.example.com"

var mapOwners = []string{".", "*.", "com", "*.com", "example.com", "*.example.com", "a.example.com", "*.a.example.com", deepOwner, "*." + deepOwner}
var mapKinds = []string{"M", "8"}

var shallowNames = []string{".", "com", "org", "x.com", "example.com", "exampld.com", "a.example.com", "0.example.com", "b.example.com",
	"a.a.example.com", "b.a.example.com", "c.b.a.example.com", "example.com.example.com"}

// queryNames: the shallow universe plus deep names - every per-label loop of the
// name -> map step has a bound somewhere (a primed slice capacity, a key buffer,
// 127 labels, 255 bytes): a ladder of 9..14-label names below a.example.com (the
// deep owner is one of its rungs: 11 labels), a sibling of the deep owner, a
// 35-label nibble name, the longest possible names (123 one-byte labels = 255
// bytes; four labels of 63+63+63+47 bytes = 255 bytes) and a 34-label ip6.arpa name.
var queryNames, queryDisp = buildQueryNames()

// deepLabels(n) = "n.….2.1" with one-character labels 1..9,a..z
func deepLabels(n int) string {
	const al = "123456789abcdefghijklmnopqrstuvwxyz"
	var l []string
	for i := n; i >= 1; i-- {
		l = append(l, string(al[(i-1)%len(al)]))
	}
	return strings.Join(l, ".")
}

func buildQueryNames() (names, disp []string) {
	add := func(n, d string) {
		if w := wireName(n); len(w) > 255 {
			panic("query name longer than 255 bytes: " + d)
		}
		names = append(names, n)
		disp = append(disp, d)
	}
	for _, n := range shallowNames {
		add(n, n)
	}
	for e := 6; e <= 11; e++ { // 9..14 labels
		add(deepLabels(e)+".a.example.com", deepLabels(e)+".a.example.com")
	}
	add("x.7.6.5.4.3.2.1.a.example.com", "x.7.6.5.4.3.2.1.a.example.com") // sibling of the deep owner
	add(deepLabels(32)+".a.example.com", "<32x1>.a.example.com")
	add(deepLabels(120)+".a.example.com", "<120x1>.a.example.com")
	add(strings.Repeat("x", 63)+"."+strings.Repeat("y", 63)+"."+strings.Repeat("z", 63)+"."+strings.Repeat("w", 47)+".a.example.com", "<63+63+63+47>.a.example.com")
	add(strings.Join(strings.Split("10000000000000000000000000000000", ""), ".")+".ip6.arpa", "<32x1>.ip6.arpa")
	return names, disp
}

type mdecl struct {
	owner string
	kind  int    // 0 = M (resolver map), 1 = 8 (client-subnet map)
	id    string // two-byte map id, also used as the location of its only subnet
}

func (d mdecl) text() string { return mapKinds[d.kind] + d.owner }

func wireName(n string) []byte {
	if n == "." {
		return []byte{0}
	}
	var b []byte
	for _, l := range strings.Split(n, ".") {
		b = append(b, byte(len(l)))
		b = append(b, l...)
	}
	return append(b, 0)
}

// mapOracle: the exact-name map first, else the map of the nearest strict
// ancestor that has a wildcard declaration; "" when there is none.
func mapOracle(decls []mdecl, kind int, qname string) string {
	for _, d := range decls {
		if d.kind == kind && d.owner == qname {
			return d.id
		}
	}
	if qname == "." {
		return ""
	}
	anc := qname
	for {
		if i := strings.IndexByte(anc, '.'); i >= 0 {
			anc = anc[i+1:]
		} else {
			anc = ""
		}
		w := "*." + anc
		for _, d := range decls {
			if d.kind == kind && d.owner == w {
				return d.id
			}
		}
		if anc == "" {
			return ""
		}
	}
}

const (
	cWantNoneGotMap = iota
	cWantMapGotNone
	cWrongMap
	cError
	cPanic
)

var kindNamesC = []string{"want-none-got-map", "want-map-got-none", "wrong-map", "error", "panic"}

type cfail struct {
	store, kind, dis uint8
	qn               uint8
}

// cfile is one data file: a set of declarations (bit i = declaration i) and
// the stores it is compiled to.
type cfile struct {
	mask uint32
	rdb  bool
}

type levelC struct {
	nDecls, nFiles, nRdbFiles, nNames int
	fileRule                          string
	dbs, evals, nontrivial, failing   int64
	decls                             []mdecl
	files                             []cfile
	fails                             [][]cfail
	gots                              []map[cfail]string
}

func (c *levelC) idsOf(mask uint32) []int {
	var ids []int
	for i := range c.decls {
		if mask&(1<<uint(i)) != 0 {
			ids = append(ids, i)
		}
	}
	return ids
}

var storesC = []storeCfg{{"cdb", dnsfix.CDB, false}, {"rdb-v1", dnsfix.RDBv1, false}, {"rdb-v2", dnsfix.RDBv2, false}}

func (c *levelC) fileText(ids []int) string {
	var sb strings.Builder
	for _, i := range ids {
		d := c.decls[i]
		fmt.Fprintf(&sb, "%s%s,%s\n", mapKinds[d.kind], d.owner, d.id)
	}
	for _, i := range ids {
		d := c.decls[i]
		fmt.Fprintf(&sb, "%%%s,10.0.0.0/8,%s\n", d.id, d.id)
	}
	return sb.String()
}

func declsText(decls []mdecl) string {
	if len(decls) == 0 {
		return "empty"
	}
	var l []string
	for _, d := range decls {
		l = append(l, d.text())
	}
	return strings.Join(l, "+")
}

var clientC = client{fam: 4, addr: u128{0, 10<<24 | 1<<16 | 1<<8 | 1}, plen: 32, full: true}
var clientCecs = client{fam: 4, addr: u128{0, 10<<24 | 1<<16 | 1<<8}, plen: 24}

func (c *levelC) runFile(dir string, fi int) {
	ids := c.idsOf(c.files[fi].mask)
	var decls []mdecl
	for _, i := range ids {
		decls = append(decls, c.decls[i])
	}
	text := c.fileText(ids)
	for si, st := range storesC {
		if st.backend != dnsfix.CDB && !c.files[fi].rdb {
			continue
		}
		path, err := dnsfix.Compile(dir, st.backend, []byte(text))
		if err != nil {
			vlib.Infra("level C: compile %s of %q failed: %v", st.name, text, err)
		}
		atomic.AddInt64(&c.dbs, 1)
		d, err := db.Open(path, st.backend.Driver())
		if err != nil {
			vlib.Infra("level C: open %s: %v", path, err)
		}
		var evals, nontriv, failing int64
		for qi, qn := range queryNames {
			q := wireName(qn)
			for kind := 0; kind < 2; kind++ {
				want := mapOracle(decls, kind, qn)
				cl := &clientC
				if kind == 1 {
					cl = &clientCecs
				}
				got, desc, perr, panicked := lookupMap(d, kind, q, cl)
				evals++
				if want != "" {
					nontriv++
				}
				dis := -1
				switch {
				case panicked:
					dis = cPanic
				case perr:
					dis = cError
				case got == want:
				case want == "":
					dis = cWantNoneGotMap
				case got == "":
					dis = cWantMapGotNone
				default:
					dis = cWrongMap
				}
				if dis >= 0 {
					failing++
					f := cfail{store: uint8(si), kind: uint8(kind), dis: uint8(dis), qn: uint8(qi)}
					c.fails[fi] = append(c.fails[fi], f)
					if c.gots[fi] == nil {
						c.gots[fi] = map[cfail]string{}
					}
					c.gots[fi][f] = desc
				}
			}
		}
		atomic.AddInt64(&c.evals, evals)
		atomic.AddInt64(&c.nontrivial, nontriv)
		atomic.AddInt64(&c.failing, failing)
		d.Destroy()
		os.RemoveAll(path)
	}
}

// lookupMap returns the id of the map the reader chose ("" for none).
func lookupMap(d *db.DB, kind int, q []byte, cl *client) (got, desc string, isErr, panicked bool) {
	defer func() {
		if p := recover(); p != nil {
			got, desc, isErr, panicked = "", fmt.Sprintf("panic: %v", p), false, true
		}
	}()
	rd, err := db.NewReader(d)
	if err != nil {
		return "", "NewReader: " + err.Error(), true, false
	}
	defer rd.Close()
	var loc *db.Location
	if kind == 0 {
		loc, err = rd.ResolverLocation(q, addrText(cl.fam, cl.addr))
	} else {
		loc, err = rd.EcsLocation(q, ecsOf(cl))
	}
	if err != nil {
		return "", "error: " + err.Error(), true, false
	}
	if loc == nil || loc.MapID == [2]byte{0, 0} {
		return "", "no map", false, false
	}
	if loc.LocID != loc.MapID {
		// every map holds one subnet whose location carries the map's id
		return string(loc.MapID[:]), fmt.Sprintf("map %q but location %q", loc.MapID[:], loc.LocID[:]), true, false
	}
	return string(loc.MapID[:]), fmt.Sprintf("map %q", loc.MapID[:]), false, false
}

func popcount(m uint32) int {
	n := 0
	for ; m != 0; m &= m - 1 {
		n++
	}
	return n
}

func runLevelC(r *vlib.Run, dir string) *levelC {
	c := &levelC{nNames: len(queryNames)}
	clientC.ip16 = wireECSAddress(4, clientC.addr, 32)
	clientCecs.ip16 = wireECSAddress(4, clientCecs.addr, 24)
	for o, owner := range mapOwners {
		for k := range mapKinds {
			c.decls = append(c.decls, mdecl{owner: owner, kind: k, id: fmt.Sprintf("%c%d", "ME"[k], o)})
		}
	}
	c.nDecls = len(c.decls)
	n := len(c.decls)
	// CDB: every set of <=3 declarations. RocksDB: quick - for every set of <=2
	// owners the file that declares both kinds (M and 8) for each of them;
	// thorough - every set of <=2 declarations plus, for every set of <=3 owners,
	// the file declaring both kinds. (Files of the RocksDB list go to CDB too.)
	c.fileRule = "owners: root, com, example.com, a.example.com and the 11-label " + deepOwner + ", each as exact and as wildcard owner. CDB: all sets of <=3 of the 20 declarations, plus the RocksDB files. RocksDB v1/v2, quick: for every set of <=2 of the 10 owners the file declaring both map kinds for each owner (56 files); thorough: all sets of <=2 declarations, plus for every set of <=3 owners the file declaring both kinds"
	rdbOwners, rdbDecls := r.Pick(2, 3), r.Pick(-1, 2)
	sel := map[uint32]bool{} // mask -> rdb
	for m := uint32(0); m < 1<<uint(n); m++ {
		pc := popcount(m)
		if pc <= 3 {
			sel[m] = sel[m] || pc <= rdbDecls
		}
	}
	for om := uint32(0); om < 1<<uint(len(mapOwners)); om++ {
		if popcount(om) > rdbOwners {
			continue
		}
		var m uint32
		for o := range mapOwners {
			if om&(1<<uint(o)) != 0 {
				m |= 3 << uint(2*o) // declarations 2o (M) and 2o+1 (8)
			}
		}
		sel[m] = true
	}
	var masks []uint32
	for m := range sel {
		masks = append(masks, m)
	}
	sort.Slice(masks, func(i, j int) bool {
		if a, b := popcount(masks[i]), popcount(masks[j]); a != b {
			return a < b
		}
		return masks[i] < masks[j]
	})
	for _, m := range masks {
		c.files = append(c.files, cfile{m, sel[m]})
		if sel[m] {
			c.nRdbFiles++
		}
	}
	c.nFiles = len(c.files)
	c.fails = make([][]cfail, len(c.files))
	c.gots = make([]map[cfail]string, len(c.files))
	var order []int
	for i := range c.files {
		if c.files[i].rdb {
			order = append(order, i)
		}
	}
	for i := range c.files {
		if !c.files[i].rdb {
			order = append(order, i)
		}
	}
	vlib.ParallelFor(len(order), func(i int) { c.runFile(dir, order[i]) })

	// minimal cases only: no enumerated proper sub-file fails the same way on the same store
	type fk struct {
		set uint32
		f   cfail
	}
	all := map[fk]bool{}
	for fi := range c.files {
		for _, f := range c.fails[fi] {
			all[fk{c.files[fi].mask, f}] = true
		}
	}
	for fi := range c.files {
		mask := c.files[fi].mask
		ids := c.idsOf(mask)
		var decls []mdecl
		for _, i := range ids {
			decls = append(decls, c.decls[i])
		}
		fs := append([]cfail(nil), c.fails[fi]...)
		sort.Slice(fs, func(i, j int) bool {
			a, b := fs[i], fs[j]
			if a.store != b.store {
				return a.store < b.store
			}
			if a.kind != b.kind {
				return a.kind < b.kind
			}
			if a.dis != b.dis {
				return a.dis < b.dis
			}
			return a.qn < b.qn
		})
		for _, f := range fs {
			minimal := true
			for sub := (mask - 1) & mask; minimal; sub = (sub - 1) & mask {
				if sub != mask && all[fk{sub, f}] {
					minimal = false
				}
				if sub == 0 {
					break
				}
			}
			if !minimal {
				continue
			}
			qn := queryNames[f.qn]
			want := mapOracle(decls, int(f.kind), qn)
			if want == "" {
				want = "no map"
			} else {
				for _, d := range decls {
					if d.id == want {
						want = fmt.Sprintf("map %q (declared by %s)", d.id, d.text())
					}
				}
			}
			text := c.fileText(ids)
			fp := fmt.Sprintf("name-map/%s/%s/%s/%s/%s", storesC[f.store].name, mapKinds[f.kind], kindNamesC[f.dis], declsText(decls), queryDisp[f.qn])
			violate(r, fp, fmt.Sprintf("store %s, %s maps, query name %s: oracle (exact owner first, else nearest enclosing wildcard) says %s, the reader returned %s\ndata file:\n%s",
				storesC[f.store].name, mapKinds[f.kind], qn, want, c.gots[fi][f], text),
				map[string]interface{}{"level": "C", "store": storesC[f.store].name, "map_kind": mapKinds[f.kind], "qname": qn, "data": text, "want": want, "got": c.gots[fi][f]})
		}
	}
	for _, fi := range []int{1, len(c.files) / 2, len(c.files) - 1} {
		r.Sample(map[string]interface{}{"level": "C", "data": c.fileText(c.idsOf(c.files[fi].mask)), "rocksdb": c.files[fi].rdb, "failing_lookups": len(c.fails[fi])})
	}
	return c
}
