package main

// Level B: subnet sets compiled by the real compilers into real stores and
// looked up through the real db.Reader.

import (
	"fmt"
	"net"
	"os"
	"sort"
	"strings"
	"sync/atomic"

	"github.com/facebookincubator/dns/dnsrocks/db"
	"github.com/miekg/dns"

	"verifharness/dnsfix"
	"verifharness/vlib"
)

const kPanic = nKinds // level B/C add "panic" to the kinds of level A

var kindNamesB = []string{"want-none-got-loc", "want-loc-got-none", "wrong-loc", "error", "panic"}

type storeCfg struct {
	name     string
	backend  dnsfix.Backend
	separate bool
}

var storesPhase1 = []storeCfg{
	{"cdb-combined", dnsfix.CDB, false},
	{"rdb-v1", dnsfix.RDBv1, false},
	{"rdb-v2", dnsfix.RDBv2, false},
}
var storesPhase2 = []storeCfg{{"cdb-perfamily", dnsfix.CDB, true}}
var storeNames = []string{"cdb-combined", "rdb-v1", "rdb-v2", "cdb-perfamily", "rdb-v1-preproc", "rdb-v2-preproc"}

func storeIndex(n string) uint8 {
	for i, s := range storeNames {
		if s == n {
			return uint8(i)
		}
	}
	panic(n)
}

// surroundings
const (
	sAlone = iota
	sNeighA
	sNeighB
	sNeighC
	sEmptyMap
	sRootRecord
	nSurr
)

var surrNames = [nSurr]string{"alone", "neighbours-a", "neighbours-b", "neighbours-c", "empty-map", "root-record"}

var surrDoc = "alone: M/8 example.com -> m1, the set in m1; neighbours-a: + map c1 {::/0 -> cc} and map z1 {0.0.0.0/0 -> zz}; neighbours-b: c1 {0.0.0.0/0}, z1 {::/0}; neighbours-c: c1 {255.255.255.255/32}, z1 {2001:db8::/32}; empty-map: m1 selected by example.com but without subnets, the set placed in c1 and in z1; root-record: alone + an untagged TXT record owned by the root. Every database is also asked for a name that selects no map (nomap.org)."

const mapHeader = "Mexample.com,m1\n8example.com,m1\n"
const neighHeader = "Mc.example.org,c1\n8c.example.org,c1\nMz.example.org,z1\n8z.example.org,z1\n"

func setLines(set []decl, mapID string) string {
	var sb strings.Builder
	for _, d := range set {
		fmt.Fprintf(&sb, "%%%s,%s,%s\n", locNames[d.loc], d.p.text, mapID)
	}
	return sb.String()
}

// caseText returns the data file and the set that map m1 really holds.
func caseText(surr int, set []decl) (string, []decl) {
	switch surr {
	case sAlone:
		return mapHeader + setLines(set, "m1"), set
	case sNeighA:
		return mapHeader + neighHeader + "%cc,::/0,c1\n" + setLines(set, "m1") + "%zz,0.0.0.0/0,z1\n", set
	case sNeighB:
		return mapHeader + neighHeader + "%cc,0.0.0.0/0,c1\n" + setLines(set, "m1") + "%zz,::/0,z1\n", set
	case sNeighC:
		return mapHeader + neighHeader + "%cc,255.255.255.255/32,c1\n" + setLines(set, "m1") + "%zz,2001:db8::/32,z1\n", set
	case sEmptyMap:
		return mapHeader + neighHeader + setLines(set, "c1") + setLines(set, "z1"), nil
	case sRootRecord:
		return mapHeader + setLines(set, "m1") + "'.,root text,300,,\n", set
	}
	panic("surrounding")
}

type bcase struct {
	surr int
	ids  []int // item ids (prefix*2+loc), increasing
	set  []decl
	rdb  bool // also compiled to the RocksDB stores
}

func (c *bcase) key() uint64 { return uint64(c.surr)<<32 | uint64(setKey(c.ids)) }

type bfail struct {
	store, path, qclass, kind uint8
	xfam                      uint8 // 1: an IPv4 client was given a match shorter than /96, i.e. an IPv6 subnet
	client                    uint16
}

type bfailKey struct {
	ckey uint64
	f    bfail
}

type levelB struct {
	nAlpha, nClients, nSets, nCases int
	nRdbCases                       int
	rdbRule                         string
	dbs, evals, nontrivial, failing int64
	surroundings                    string
	largeDoc                        string // the large maps (levelb_large.go)
	nLarge, largeMinPoints          int
	alpha                           []prefix
	clients                         []client
	cases                           []bcase
	compilePanic                    []string           // per case: Rearranger panic text, "" if none
	fails                           [][]bfail          // per case
	gots                            []map[bfail]string // per case: description of what was returned
}

var qnameM1 = []byte("\x07example\x03com\x00")
var qnameNoMap = []byte("\x05nomap\x03org\x00")

func locIndex(id [2]byte) (int, string) {
	if id == [2]byte{0, 0} {
		return gotNone, ""
	}
	for i, n := range locNames {
		if string(id[:]) == n {
			return i, n
		}
	}
	return gotOther, string(id[:])
}

// lookup performs one real lookup on a fresh reader (as the server does per
// request) and returns the location index, or gotError/kPanic information.
func lookup(d *db.DB, path int, q []byte, c *client) (got int, desc string, mask int, panicked bool) {
	defer func() {
		if p := recover(); p != nil {
			got, desc, mask, panicked = gotError, fmt.Sprintf("panic: %v", p), -1, true
		}
	}()
	rd, err := db.NewReader(d)
	if err != nil {
		return gotError, "NewReader: " + err.Error(), -1, false
	}
	defer rd.Close()
	var loc *db.Location
	if path == 0 {
		loc, err = rd.ResolverLocation(q, addrText(c.fam, c.addr))
	} else {
		loc, err = rd.EcsLocation(q, ecsOf(c))
	}
	if err != nil {
		return gotError, "error: " + err.Error(), -1, false
	}
	if loc == nil {
		return gotNone, "no location", -1, false
	}
	g, name := locIndex(loc.LocID)
	switch g {
	case gotNone:
		return g, "no location", -1, false
	case gotOther:
		return g, fmt.Sprintf("location %q of another map (map %q, mask %d)", name, loc.MapID[:], loc.Mask), int(loc.Mask), false
	}
	return g, fmt.Sprintf("%s (map %q, mask %d)", name, loc.MapID[:], loc.Mask), int(loc.Mask), false
}

var pathNames = []string{"resolver", "ecs"}
var qclassNames = []string{"m1", "nomap"}

func (b *levelB) runCase(dir string, ci int, stores []storeCfg) {
	c := &b.cases[ci]
	text, m1set := caseText(c.surr, c.set)
	if b.compilePanic[ci] != "" {
		return
	}
	if msg := preflight(c.set); msg != "" {
		b.compilePanic[ci] = msg // rdb.Compile would crash the process; reported in report()
		return
	}
	for _, st := range stores {
		path, err := dnsfix.Compile(dir, st.backend, []byte(text))
		if err != nil {
			vlib.Infra("level B: compile %s of %q failed: %v", st.name, text, err)
		}
		atomic.AddInt64(&b.dbs, 1)
		d, err := db.Open(path, st.backend.Driver())
		if err != nil {
			vlib.Infra("level B: open %s: %v", path, err)
		}
		si := storeIndex(st.name)
		var evals, nontriv, failing int64
		for qc, q := range [][]byte{qnameM1, qnameNoMap} {
			for p := 0; p < 2; p++ {
				for k := range b.clients {
					cl := &b.clients[k]
					if p == 0 && !cl.full {
						continue
					}
					want := -1
					if qc == 0 {
						want = oracle(m1set, cl)
					}
					got, desc, mask, panicked := lookup(d, p, q, cl)
					evals++
					if want >= 0 {
						nontriv++
					}
					kind := classify(want, got)
					if panicked {
						kind = kPanic
					} else if got == gotOther {
						if want < 0 {
							kind = kWantNoneGotLoc
						} else {
							kind = kWrongLoc
						}
					}
					if kind >= 0 {
						failing++
						f := bfail{store: si, path: uint8(p), qclass: uint8(qc), kind: uint8(kind), client: uint16(k)}
						if cl.fam == 4 && mask >= 0 && mask < 96 {
							f.xfam = 1
						}
						b.fails[ci] = append(b.fails[ci], f)
						if b.gots[ci] == nil {
							b.gots[ci] = map[bfail]string{}
						}
						b.gots[ci][f] = desc
					}
				}
			}
		}
		atomic.AddInt64(&b.evals, evals)
		atomic.AddInt64(&b.nontrivial, nontriv)
		atomic.AddInt64(&b.failing, failing)
		d.Destroy() // no reader is open: closes the backend
		os.RemoveAll(path)
	}
}

// rdbCore are the prefixes that matter for the RocksDB stores in the quick tier:
// both default routes, the zero-network subnets, the /96 boundary and one nested
// pair per family.
var rdbCore = []string{"0.0.0.0/0", "::/0", "::/8", "0.0.0.0/8", "::ffff:0:0/96", "8.0.0.0/6", "9.0.0.0/8", "2001:db8::/30", "2001:db9::/32"}
var rdbZero = []string{"0.0.0.0/0", "::/0", "::/8", "0.0.0.0/8"}

func inList(l []string, t string) bool {
	for _, x := range l {
		if x == t {
			return true
		}
	}
	return false
}

// rdbSelected decides, from the shape of the case alone, whether it is also
// compiled to the RocksDB stores (a RocksDB database costs ~100x a CDB file).
func rdbSelected(thorough bool, shallow map[string]bool, c *bcase) bool {
	for i, d := range c.set {
		if i > 0 && d.loc == c.set[0].loc {
			return false // pairs on RocksDB: the two subnets carry different locations
		}
	}
	if thorough {
		// members from the 24-prefix alphabet (trees of depth 2)
		for _, d := range c.set {
			if !shallow[d.p.text] {
				return false
			}
		}
		switch c.surr {
		case sAlone:
			return true
		case sNeighA, sEmptyMap:
			return len(c.set) <= 1
		default:
			return len(c.set) == 0 || (len(c.set) == 1 && inList(rdbCore, c.set[0].p.text))
		}
	}
	for _, d := range c.set {
		if !inList(rdbCore, d.p.text) {
			return false
		}
	}
	switch c.surr {
	case sAlone:
		if len(c.set) == 2 {
			a, b := c.set[0].p, c.set[1].p
			return a.fam == b.fam || (inList(rdbZero, a.text) && inList(rdbZero, b.text))
		}
		return true
	case sEmptyMap:
		return len(c.set) == 0 || (len(c.set) == 1 && (c.set[0].p.text == "::/0" || c.set[0].p.text == "::/8"))
	case sNeighA:
		return len(c.set) == 0 || (len(c.set) == 1 && c.set[0].p.text == "8.0.0.0/6")
	case sRootRecord:
		return len(c.set) == 0
	}
	return false
}

var rdbDoc = "RocksDB stores, quick: 'alone' with the empty set, the 9 core prefixes {both default routes, ::/8, 0.0.0.0/8, ::ffff:0:0/96, 8.0.0.0/6, 9.0.0.0/8, 2001:db8::/30, 2001:db9::/32} and their pairs tagged aa+bb that are of one family or both in {0.0.0.0/0, ::/0, ::/8, 0.0.0.0/8}; empty-map with {}, {::/0}, {::/8}; neighbours-a with {}, {8.0.0.0/6}; root-record with {}. RocksDB stores, thorough: members from the 24-prefix alphabet; 'alone' with all sets <=2 (pairs tagged aa+bb); neighbours-a and empty-map with sets <=1; neighbours-b/c and root-record with {} and the core singles."

func runLevelB(r *vlib.Run, dir string) *levelB {
	b := &levelB{surroundings: surrDoc, rdbRule: rdbDoc}
	b.alpha = buildAlphabet(r.Pick(2, 4))
	b.clients = buildClients(b.alpha)
	b.nAlpha, b.nClients = len(b.alpha), len(b.clients)
	canon := canonIndex(b.alpha)
	shallow := map[string]bool{}
	for _, p := range buildAlphabet(2) {
		shallow[p.text] = true
	}

	// sets of size <=2; the first subnet is always tagged aa (renaming symmetry)
	type iset struct{ ids []int }
	var sets []iset
	sets = append(sets, iset{nil})
	for i := range b.alpha {
		sets = append(sets, iset{[]int{i * 2}})
	}
	for i := range b.alpha {
		for j := i + 1; j < len(b.alpha); j++ {
			if canon[i] == canon[j] {
				continue
			}
			for l := 0; l < 2; l++ {
				sets = append(sets, iset{[]int{i * 2, j*2 + l}})
			}
		}
	}
	b.nSets = len(sets)
	maxSize := map[int]int{sAlone: 2, sNeighA: 2, sEmptyMap: 1, sRootRecord: 1, sNeighB: r.Pick(-1, 1), sNeighC: r.Pick(-1, 1)}
	for _, s := range sets {
		for surr := 0; surr < nSurr; surr++ {
			if len(s.ids) > maxSize[surr] {
				continue
			}
			c := bcase{surr: surr, ids: s.ids}
			for _, id := range s.ids {
				c.set = append(c.set, decl{&b.alpha[id/2], id % 2})
			}
			c.rdb = rdbSelected(r.Thorough(), shallow, &c)
			b.cases = append(b.cases, c)
		}
	}
	b.nCases = len(b.cases)
	b.compilePanic = make([]string, len(b.cases))
	b.fails = make([][]bfail, len(b.cases))
	b.gots = make([]map[bfail]string, len(b.cases))

	// execution order: the expensive (RocksDB) cases first; results are stored per
	// case, so the order has no influence on what is reported
	var order []int
	for i := range b.cases {
		if b.cases[i].rdb {
			order = append(order, i)
			b.nRdbCases++
		}
	}
	for i := range b.cases {
		if !b.cases[i].rdb {
			order = append(order, i)
		}
	}
	db.SeparateBitMap = false
	vlib.ParallelFor(len(order), func(i int) {
		ci := order[i]
		if b.cases[ci].rdb {
			b.runCase(dir, ci, storesPhase1)
		} else {
			b.runCase(dir, ci, storesPhase1[:1])
		}
	})
	db.SeparateBitMap = true
	vlib.ParallelFor(len(b.cases), func(i int) { b.runCase(dir, i, storesPhase2) })
	db.SeparateBitMap = false
	b.runLarge(r, dir)

	b.report(r)
	b.sample(r)
	return b
}

// report keeps, per failure, only the minimal cases: the same (store, path,
// name class, kind, client) must not fail in a sub-case. Sub-cases of
// (surrounding, set): the same surrounding with a proper subset, and, for
// surroundings that extend "alone", "alone" with any subset (the set included).
func (b *levelB) report(r *vlib.Run) {
	// sets on which the Rearranger panics (the RocksDB compiler would crash)
	panicking := map[uint64]bool{}
	for ci := range b.cases {
		if b.compilePanic[ci] != "" {
			panicking[b.cases[ci].key()] = true
		}
	}
	for ci := range b.cases {
		c := &b.cases[ci]
		if b.compilePanic[ci] == "" {
			continue
		}
		minimal := true
		for _, id := range c.ids {
			if len(c.ids) > 1 && panicking[uint64(c.surr)<<32|uint64(setKey(canonLocs([]int{id})))] {
				minimal = false
			}
		}
		if c.surr != sAlone && panicking[uint64(sAlone)<<32|uint64(setKey(c.ids))] {
			minimal = false
		}
		if !minimal {
			continue
		}
		text, _ := caseText(c.surr, c.set)
		violate(r, fmt.Sprintf("lpm-store/rdb-compile/%s/panic/%s", surrNames[c.surr], setText(c.set)),
			fmt.Sprintf("Rearranger.AddLocation/Rearrange panics on this set (%s); rdb.Compile raises the same panic in a goroutine of SubnetRanger.MarshalMap and takes the process down\ndata file:\n%s", b.compilePanic[ci], text),
			map[string]interface{}{"level": "A", "lines": strings.Split(strings.TrimSpace(setLines(c.set, "m1")), "\n"), "client": "0.0.0.0/0"})
	}
	all := map[bfailKey]bool{}
	for ci := range b.cases {
		k := b.cases[ci].key()
		for _, f := range b.fails[ci] {
			all[bfailKey{k, f}] = true
		}
	}
	type group struct {
		first bfail
		ci    int
		n     int
	}
	groups := map[string]*group{}
	var order []string
	for ci := range b.cases {
		c := &b.cases[ci]
		var subs []uint64
		n := len(c.ids)
		for m := 0; m < 1<<uint(n); m++ {
			var sub []int
			for i := 0; i < n; i++ {
				if m&(1<<uint(i)) != 0 {
					sub = append(sub, c.ids[i])
				}
			}
			sk := uint64(setKey(canonLocs(sub)))
			if len(sub) < n {
				subs = append(subs, uint64(c.surr)<<32|sk)
			}
			if c.surr != sAlone && c.surr != sEmptyMap {
				subs = append(subs, uint64(sAlone)<<32|sk)
			}
		}
		fs := append([]bfail(nil), b.fails[ci]...)
		sort.Slice(fs, func(i, j int) bool {
			a, c := fs[i], fs[j]
			if a.store != c.store {
				return a.store < c.store
			}
			if a.path != c.path {
				return a.path < c.path
			}
			if a.qclass != c.qclass {
				return a.qclass < c.qclass
			}
			if a.kind != c.kind {
				return a.kind < c.kind
			}
			if a.xfam != c.xfam {
				return a.xfam < c.xfam
			}
			return a.client < c.client
		})
		for _, f := range fs {
			minimal := true
			for _, sk := range subs {
				if all[bfailKey{sk, f}] {
					minimal = false
					break
				}
			}
			if !minimal {
				continue
			}
			cl := &b.clients[f.client]
			fam := fmt.Sprintf("v%d", cl.fam)
			if f.xfam == 1 {
				fam = "v4xv6"
			}
			fp := fmt.Sprintf("lpm-store/%s/%s/%s/%s/%s/%s/%s", storeNames[f.store], pathNames[f.path], surrNames[c.surr], qclassNames[f.qclass], kindNamesB[f.kind], fam, setText(c.set))
			g := groups[fp]
			if g == nil {
				g = &group{first: f, ci: ci}
				groups[fp] = g
				order = append(order, fp)
			}
			g.n++
		}
	}
	for _, fp := range order {
		g := groups[fp]
		c := &b.cases[g.ci]
		cl := &b.clients[g.first.client]
		text, m1set := caseText(c.surr, c.set)
		want := "no location"
		if g.first.qclass == 0 {
			if w := oracle(m1set, cl); w >= 0 {
				want = locNames[w]
			}
		}
		qn := "example.com"
		if g.first.qclass == 1 {
			qn = "nomap.org"
		}
		violate(r, fp, fmt.Sprintf("store %s, %s path, query name %s, client %s (first of %d clients of this family failing this way here and in no sub-case): oracle says %s, the reader returned %s\ndata file:\n%s",
			storeNames[g.first.store], pathNames[g.first.path], qn, cl.text, g.n, want, b.gots[g.ci][g.first], text),
			map[string]interface{}{"level": "B", "store": storeNames[g.first.store], "path": pathNames[g.first.path], "qname": qn, "client": cl.text, "data": text, "want": want, "got": b.gots[g.ci][g.first]})
	}
}

func (b *levelB) sample(r *vlib.Run) {
	for _, ci := range []int{0, 1, len(b.cases) / 3, len(b.cases) / 2, len(b.cases) - 1} {
		if ci < 0 || ci >= len(b.cases) {
			continue
		}
		c := &b.cases[ci]
		text, _ := caseText(c.surr, c.set)
		r.Sample(map[string]interface{}{"level": "B", "surrounding": surrNames[c.surr], "set": setText(c.set), "data": text, "failing_lookups": len(b.fails[ci])})
	}
}

// ecsOf builds a fresh ECS option as the server holds it after unpacking.
func ecsOf(c *client) *dns.EDNS0_SUBNET {
	fam := uint16(1)
	if c.fam == 6 {
		fam = 2
	}
	return &dns.EDNS0_SUBNET{Code: dns.EDNS0SUBNET, Family: fam, SourceNetmask: uint8(c.plen), Address: append(net.IP(nil), c.ip16...)}
}

// canonLocs renames the two locations so that the first member is tagged aa
// (level B enumerates taggings up to this renaming).
func canonLocs(ids []int) []int {
	if len(ids) == 0 || ids[0]%2 == 0 {
		return ids
	}
	out := make([]int, len(ids))
	for i, id := range ids {
		out[i] = id ^ 1
	}
	return out
}
