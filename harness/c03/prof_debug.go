package main

import (
	"os"
	"runtime/pprof"
)

func init() {
	if p := os.Getenv("C03_PROF"); p != "" {
		f, _ := os.Create(p)
		pprof.StartCPUProfile(f)
		stopProf = pprof.StopCPUProfile
	}
}

var stopProf = func() {}
