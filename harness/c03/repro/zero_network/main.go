// Reproducer (DESIGN §5 item 5): a subnet whose network address is :: or 0.0.0.0
// is taken for the family's default route whatever its length.
// Run: cd /verif/harness && go run ./c03/repro/zero_network
package main

import (
	"fmt"
	"net"

	"github.com/facebookincubator/dns/dnsrocks/dnsdata"
)

func main() {
	for _, cidr := range []string{"::/128", "::ffff:0.0.0.0/104" /* = 0.0.0.0/8 as Rnet.UnmarshalText normalises it */} {
		_, n, _ := net.ParseCIDR(cidr)
		n.IP, n.Mask = n.IP.To16(), net.CIDRMask(func() int { o, b := n.Mask.Size(); return o + 128 - b }(), 128)
		r := dnsdata.NewRearranger(2)
		if err := r.AddLocation(n, []byte("aa")); err != nil {
			panic(err)
		}
		fmt.Printf("%%aa,%s -> range points:\n%s\n", cidr, r.Rearrange())
		// WRONG: no end point after the subnet (::1 resp. ::ffff:1.0.0.0): location aa extends
		// to the end of the family (2001:db8::1 resp. 8.8.8.8 are "in" aa).
	}
}
