// Reproducer (DESIGN §5 item 2 + root wildcard): name -> map lookup on v2 keys.
// Run: cd /verif/harness && go run -ldflags=-checklinkname=0 ./c03/repro/v2_wildcard_map
package main

import (
	"fmt"
	"os"
	"strings"

	"github.com/facebookincubator/dns/dnsrocks/db"
	"github.com/facebookincubator/dns/dnsrocks/dnsdata/rdb"
)

func ask(v2 bool, data, qname string) (res string) {
	dir, _ := os.MkdirTemp("", "repro")
	defer os.RemoveAll(dir)
	if _, err := rdb.Compile(strings.NewReader(data), 1, dir, rdb.CompilationOptions{NumCPU: 1, BatchNumParallel: 1, UseV2KeySyntax: v2}); err != nil {
		panic(err)
	}
	d, _ := db.Open(dir, "rocksdb")
	r, _ := db.NewReader(d)
	defer func() {
		if p := recover(); p != nil {
			res = fmt.Sprint("PANIC: ", p)
		}
	}()
	loc, err := r.ResolverLocation([]byte(qname), "10.1.1.1")
	return fmt.Sprintf("map=%q loc=%q err=%v", loc.MapID[:], loc.LocID[:], err)
}

func main() {
	for _, v2 := range []bool{false, true} {
		// wildcard map at the queried name, no exact map: expected "no map" (v1), v2 panics
		fmt.Println("v2 =", v2, "M*.example.com, ask example.com:", ask(v2, "M*.example.com,m1\n%aa,10.0.0.0/8,m1\n", "\x07example\x03com\x00"))
		// wildcard map at the root: expected map m1 for every name below the root, v2 finds none
		fmt.Println("v2 =", v2, "M*. , ask example.com:          ", ask(v2, "M*.,m1\n%aa,10.0.0.0/8,m1\n", "\x07example\x03com\x00"))
	}
}
