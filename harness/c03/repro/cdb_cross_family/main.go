// Reproducer (DESIGN §5 item 4): with the combined prefix-length set an IPv4
// client matches an IPv6 subnet on CDB. RocksDB and FBDNS_SEPARATE_MASKLENS=1 do not.
// Run: cd /verif/harness && go run -ldflags=-checklinkname=0 ./c03/repro/cdb_cross_family
package main

import (
	"fmt"
	"os"
	"strings"

	"github.com/facebookincubator/dns/dnsrocks/db"
	"github.com/facebookincubator/dns/dnsrocks/dnsdata/cdb"
	gocdb "github.com/repustate/go-cdb"
)

func main() {
	f, _ := os.CreateTemp("", "repro*.cdb")
	defer os.Remove(f.Name())
	w, _ := gocdb.NewWriter(f.Name())
	if _, err := cdb.CreateCDBFromReader(strings.NewReader("Mexample.com,m1\n%aa,::/0,m1\n"), w, 1, 1); err != nil {
		panic(err)
	}
	w.Close()
	for _, sep := range []bool{false, true} {
		db.SeparateBitMap = sep
		d, _ := db.Open(f.Name(), "cdb")
		r, _ := db.NewReader(d)
		loc, err := r.ResolverLocation([]byte("\x07example\x03com\x00"), "1.2.3.4")
		fmt.Printf("SeparateBitMap=%v: IPv4 resolver 1.2.3.4, only ::/0 declared -> loc=%q mask=%d err=%v (expected no location)\n", sep, loc.LocID[:], loc.Mask, err)
		r.Close()
	}
}
