// Reproducer (DESIGN §5 item 24): rdbdriver.GetLocationByMap takes whatever key
// precedes the search key: a range point of another map, or (v1 keys) a record
// owned by the root.
// Run: cd /verif/harness && go run -ldflags=-checklinkname=0 ./c03/repro/rdb_neighbour_map
package main

import (
	"fmt"
	"os"
	"strings"

	"github.com/facebookincubator/dns/dnsrocks/db"
	"github.com/facebookincubator/dns/dnsrocks/dnsdata/rdb"
)

func ask(data, qname string) string {
	dir, _ := os.MkdirTemp("", "repro")
	defer os.RemoveAll(dir)
	if _, err := rdb.Compile(strings.NewReader(data), 1, dir, rdb.CompilationOptions{NumCPU: 1, BatchNumParallel: 1}); err != nil {
		panic(err)
	}
	d, _ := db.Open(dir, "rocksdb")
	r, _ := db.NewReader(d)
	loc, err := r.ResolverLocation([]byte(qname), "10.1.1.1")
	if err != nil {
		return "ERROR " + err.Error()
	}
	return fmt.Sprintf("map=%q loc=%q", loc.MapID[:], loc.LocID[:])
}

func main() {
	// m1 has no subnet at all; c1 (sorting before m1) has a default route: expected "no location"
	fmt.Println("empty m1 next to c1{::/0->cc}:", ask("Mexample.com,m1\n%cc,::/0,c1\n", "\x07example\x03com\x00"))
	// v1 keys: no map for the name, a TXT record owned by the root: expected "no location", no error
	fmt.Println("root-owned record, no map:   ", ask("'.,root text,300,,\n", "\x07example\x03com\x00"))
}
