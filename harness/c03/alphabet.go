package main

// Subnet alphabet, client universe and the brute-force longest-prefix oracle.
// Nothing here imports the repository: the oracle works on (family, 128-bit
// integer, prefix length) triples and shares no code with dnsdata or db.

import (
	"fmt"
	"net"
	"sort"

	"github.com/miekg/dns"
)

// u128 is an address as an unsigned 128-bit integer (IPv4: low 32 bits).
type u128 struct{ hi, lo uint64 }

func (a u128) and(b u128) u128 { return u128{a.hi & b.hi, a.lo & b.lo} }
func (a u128) or(b u128) u128  { return u128{a.hi | b.hi, a.lo | b.lo} }
func (a u128) not() u128       { return u128{^a.hi, ^a.lo} }
func (a u128) eq(b u128) bool  { return a.hi == b.hi && a.lo == b.lo }
func (a u128) inc() (u128, bool) { // false on overflow
	lo := a.lo + 1
	hi := a.hi
	if lo == 0 {
		hi++
		if hi == 0 {
			return u128{}, false
		}
	}
	return u128{hi, lo}, true
}
func (a u128) dec() (u128, bool) { // false on underflow
	if a.hi == 0 && a.lo == 0 {
		return u128{}, false
	}
	lo := a.lo - 1
	hi := a.hi
	if a.lo == 0 {
		hi--
	}
	return u128{hi, lo}, true
}

// topMask(bits,n) = the n most significant bits of a bits-wide word set.
func topMask(bits, n int) u128 {
	var m u128
	for i := 0; i < n; i++ {
		pos := bits - 1 - i // bit position counted from the least significant bit
		if pos >= 64 {
			m.hi |= 1 << uint(pos-64)
		} else {
			m.lo |= 1 << uint(pos)
		}
	}
	return m
}

var maskTab4 [33]u128
var maskTab6 [129]u128

func init() {
	for i := range maskTab4 {
		maskTab4[i] = topMask(32, i)
	}
	for i := range maskTab6 {
		maskTab6[i] = topMask(128, i)
	}
}

func maskOf(fam, n int) u128 {
	if fam == 4 {
		return maskTab4[n]
	}
	return maskTab6[n]
}

func famBits(fam int) int {
	if fam == 4 {
		return 32
	}
	return 128
}

func famAll(fam int) u128 {
	if fam == 4 {
		return u128{0, 0xffffffff}
	}
	return u128{^uint64(0), ^uint64(0)}
}

// prefix is one declared subnet in family-native form.
type prefix struct {
	text string // as written in the data file
	fam  int    // 4 or 6 (the family the declaration belongs to)
	net  u128
	plen int
}

func (p prefix) canon() string { return fmt.Sprintf("%d/%s/%d", p.fam, addrText(p.fam, p.net), p.plen) }

func addrIP(fam int, a u128) net.IP {
	if fam == 4 {
		return net.IPv4(byte(a.lo>>24), byte(a.lo>>16), byte(a.lo>>8), byte(a.lo)).To4()
	}
	ip := make(net.IP, 16)
	for i := 0; i < 8; i++ {
		ip[i] = byte(a.hi >> uint(56-8*i))
		ip[8+i] = byte(a.lo >> uint(56-8*i))
	}
	return ip
}

func addrText(fam int, a u128) string {
	if fam == 4 {
		return addrIP(4, a).String()
	}
	// net.IP.String prints v4-mapped addresses in dotted form; spell those out
	ip := addrIP(6, a)
	if ip.To4() != nil {
		return fmt.Sprintf("::ffff:%x:%x", uint16(a.lo>>16), uint16(a.lo))
	}
	return ip.String()
}

func parsePrefix(text string) prefix {
	ip, n, err := net.ParseCIDR(text)
	if err != nil {
		panic(err)
	}
	ones, bits := n.Mask.Size()
	_ = ip
	var a u128
	if bits == 32 {
		b := n.IP.To4()
		a.lo = uint64(b[0])<<24 | uint64(b[1])<<16 | uint64(b[2])<<8 | uint64(b[3])
		return prefix{text: text, fam: 4, net: a, plen: ones}
	}
	b := n.IP.To16()
	for i := 0; i < 8; i++ {
		a.hi = a.hi<<8 | uint64(b[i])
		a.lo = a.lo<<8 | uint64(b[8+i])
	}
	// An IPv6-notation prefix inside ::ffff:0:0/96 is the IPv4 space (RFC 4291
	// IPv4-mapped); the data format normalises both spellings to one record.
	if ones >= 96 && a.hi == 0 && a.lo>>32 == 0xffff {
		return prefix{text: text, fam: 4, net: u128{0, a.lo & 0xffffffff}, plen: ones - 96}
	}
	return prefix{text: text, fam: 6, net: a, plen: ones}
}

// binaryTree returns the prefixes root/rootLen and all descendants down to
// rootLen+depth (1+2+...+2^depth nodes), parents before children.
func binaryTree(fam int, root u128, rootLen, depth int) []prefix {
	var out []prefix
	bits := famBits(fam)
	for d := 0; d <= depth; d++ {
		l := rootLen + d
		for i := 0; i < 1<<uint(d); i++ {
			// place i in the d bits right below the root prefix
			var off u128
			shift := bits - l
			if shift >= 64 {
				off.hi = uint64(i) << uint(shift-64)
			} else {
				off.lo = uint64(i) << uint(shift)
				if shift+d > 64 { // straddles the 64-bit word boundary (not the case for our trees)
					off.hi = uint64(i) >> uint(64-shift)
				}
			}
			n := root.or(off)
			out = append(out, prefix{text: fmt.Sprintf("%s/%d", addrText(fam, n), l), fam: fam, net: n, plen: l})
		}
	}
	return out
}

var edgeTexts = []string{
	"0.0.0.0/0", "::/0",
	"0.0.0.0/8", "255.0.0.0/8", "255.255.255.255/32",
	"::/8", "::/128", "ffff::/16", "ffff:ffff:ffff:ffff:ffff:ffff:ffff:ffff/128", "::ffff:0:0/96",
}

// buildAlphabet: defaults and edges first (simplest first), then the two trees.
func buildAlphabet(depth int) []prefix {
	var a []prefix
	for _, t := range edgeTexts {
		a = append(a, parsePrefix(t))
	}
	a = append(a, binaryTree(4, parsePrefix("8.0.0.0/6").net, 6, depth)...)
	a = append(a, binaryTree(6, parsePrefix("2001:db8::/30").net, 30, depth)...)
	return a
}

// client is a client network in family-native form plus everything the lookup
// paths need, prepared once.
type client struct {
	fam  int
	addr u128 // masked to plen
	plen int
	text string
	full bool   // plen is the family's full length (usable as a resolver address)
	ip16 net.IP // as miekg unpacks an ECS option of this family (16 bytes)
}

// buildClients: for every prefix of the alphabet its first and last address and
// the addresses just outside, each with prefix lengths {own-1, own, own+1, full},
// masked as a sender (miekg's packer) masks an ECS address. IPv6-family clients
// that fall inside ::ffff:0:0/96 with length >= 96 are left out: the code under
// test and the statement have no common notion of their family.
func buildClients(alpha []prefix) []client {
	seen := map[string]bool{}
	var out []client
	add := func(fam int, a u128, l int) {
		bits := famBits(fam)
		if l < 0 || l > bits {
			return
		}
		a = a.and(topMask(bits, l))
		if fam == 6 && l >= 96 && a.hi == 0 && a.lo>>32 == 0xffff {
			return
		}
		c := client{fam: fam, addr: a, plen: l, full: l == bits}
		c.text = fmt.Sprintf("%s/%d", addrText(fam, a), l)
		if seen[c.text] {
			return
		}
		seen[c.text] = true
		c.ip16 = wireECSAddress(fam, a, l)
		out = append(out, c)
	}
	for _, p := range alpha {
		bits := famBits(p.fam)
		first := p.net
		last := p.net.or(topMask(bits, p.plen).not().and(famAll(p.fam)))
		addrs := []u128{first, last}
		if b, ok := first.dec(); ok {
			addrs = append(addrs, b)
		}
		if n, ok := last.inc(); ok && (p.fam == 6 || n.lo <= 0xffffffff) {
			addrs = append(addrs, n)
		}
		for _, a := range addrs {
			for _, l := range []int{p.plen - 1, p.plen, p.plen + 1, bits} {
				add(p.fam, a, l)
			}
		}
	}
	sort.Slice(out, func(i, j int) bool {
		if out[i].fam != out[j].fam {
			return out[i].fam < out[j].fam
		}
		a, b := out[i].addr, out[j].addr
		if a.hi != b.hi {
			return a.hi < b.hi
		}
		if a.lo != b.lo {
			return a.lo < b.lo
		}
		return out[i].plen < out[j].plen
	})
	return out
}

// wireECSAddress sends the client through miekg's real packer and unpacker and
// returns the address exactly as the server receives it.
func wireECSAddress(fam int, a u128, l int) net.IP {
	m := new(dns.Msg)
	m.SetQuestion("example.com.", dns.TypeA)
	o := &dns.OPT{Hdr: dns.RR_Header{Name: ".", Rrtype: dns.TypeOPT}}
	o.SetUDPSize(4096)
	f := uint16(1)
	if fam == 6 {
		f = 2
	}
	o.Option = append(o.Option, &dns.EDNS0_SUBNET{Code: dns.EDNS0SUBNET, Family: f, SourceNetmask: uint8(l), Address: addrIP(fam, a)})
	m.Extra = append(m.Extra, o)
	b, err := m.Pack()
	if err != nil {
		panic(fmt.Sprintf("pack ECS %s/%d: %v", addrText(fam, a), l, err))
	}
	var r dns.Msg
	if err := r.Unpack(b); err != nil {
		panic(err)
	}
	for _, e := range r.IsEdns0().Option {
		if s, ok := e.(*dns.EDNS0_SUBNET); ok {
			if int(s.SourceNetmask) != l || s.Family != f {
				panic("ECS changed on the wire")
			}
			return s.Address
		}
	}
	panic("no ECS after unpack")
}

// decl is one declared subnet with its location (index into locNames).
type decl struct {
	p   *prefix
	loc int
}

var locNames = []string{"aa", "bb"}

// oracle: the location of the longest declared subnet of the client's family
// that contains the client network and is no longer than the client prefix;
// -1 when there is none. Brute force over the declarations.
func oracle(set []decl, c *client) int {
	best, bestLen := -1, -1
	for _, d := range set {
		if d.p.fam != c.fam || d.p.plen > c.plen {
			continue
		}
		if !c.addr.and(maskOf(c.fam, d.p.plen)).eq(d.p.net) {
			continue
		}
		if d.p.plen > bestLen {
			best, bestLen = d.loc, d.p.plen
		}
	}
	return best
}

func setText(set []decl) string {
	s := ""
	for i, d := range set {
		if i > 0 {
			s += "+"
		}
		s += d.p.text + "=" + locNames[d.loc]
	}
	if s == "" {
		return "empty"
	}
	return s
}
