// Package vlib is the shared runtime of every check under /verif/harness:
// tier/seed handling, known-findings attribution, evidence writing, replay
// artefacts, process sharding and a worker pool. It contains no oracle.
package vlib

import (
	"crypto/sha256"
	"encoding/hex"
	"encoding/json"
	"fmt"
	"os"
	"path/filepath"
	"regexp"
	"runtime"
	"sort"
	"strconv"
	"strings"
	"sync"
	"time"
)

// Root is /verif (overridable for snapshots run by `vp run`).
func Root() string {
	if r := os.Getenv("VERIF_ROOT"); r != "" {
		return r
	}
	return "/verif"
}

// Repo is the dnsrocks module directory under test (normally /repo/dnsrocks).
func Repo() string {
	if r := os.Getenv("VERIF_REPO"); r != "" {
		return r
	}
	return "/repo/dnsrocks"
}

// Violation is one failing case, identified by a canonical fingerprint of its
// minimal form (so that known-findings can name it precisely).
type Violation struct {
	Fingerprint string      `json:"fingerprint"`
	Detail      string      `json:"detail"`
	Replay      interface{} `json:"replay,omitempty"`
}

type knownEntry struct {
	Property string `json:"property"`
	Status   string `json:"status"` // "known" | "fixed"
	Match    string `json:"match"`  // anchored regexp over the fingerprint
	What     string `json:"what"`
	Commit   string `json:"commit,omitempty"`
}

// Run accumulates what a check covered and found.
type Run struct {
	ID    string
	Tier  string
	Seed  int64
	Level string
	start time.Time

	mu         sync.Mutex
	violations map[string]Violation
	samples    []interface{}
	sampleSeen int
	Cov        map[string]interface{}
	Assume     []string
	Exhaustive bool
	notes      []string
}

// Start reads tier (argv[1] or VERIF_TIER, default quick) and VERIF_SEED.
func Start(id string) *Run {
	tier := os.Getenv("VERIF_TIER")
	for _, a := range os.Args[1:] {
		if a == "quick" || a == "thorough" {
			tier = a
		}
	}
	if tier != "thorough" {
		tier = "quick"
	}
	seed, _ := strconv.ParseInt(os.Getenv("VERIF_SEED"), 10, 64)
	return &Run{ID: id, Tier: tier, Seed: seed, Level: "model_checking", start: time.Now(),
		violations: map[string]Violation{}, Cov: map[string]interface{}{}, Exhaustive: true}
}

func (r *Run) Thorough() bool { return r.Tier == "thorough" }

// Pick returns q for quick, t for thorough.
func (r *Run) Pick(q, t int) int {
	if r.Thorough() {
		return t
	}
	return q
}

// Sample keeps a bounded, deterministic selection of explored cases (the first
// three and then every case whose ordinal is a power of two).
func (r *Run) Sample(x interface{}) {
	r.mu.Lock()
	defer r.mu.Unlock()
	r.sampleSeen++
	n := r.sampleSeen
	if n <= 3 || (n&(n-1)) == 0 {
		if len(r.samples) < 24 {
			r.samples = append(r.samples, x)
		}
	}
}

// Violate records a failing case (deduplicated by fingerprint).
func (r *Run) Violate(fp, detail string, replay interface{}) {
	r.mu.Lock()
	defer r.mu.Unlock()
	if _, ok := r.violations[fp]; !ok {
		r.violations[fp] = Violation{Fingerprint: fp, Detail: detail, Replay: replay}
	}
}

// Has reports whether a violation with this fingerprint is already recorded.
func (r *Run) Has(fp string) bool {
	r.mu.Lock()
	defer r.mu.Unlock()
	_, ok := r.violations[fp]
	return ok
}

func (r *Run) NumViolations() int {
	r.mu.Lock()
	defer r.mu.Unlock()
	return len(r.violations)
}

// Note adds a free-text remark to the evidence.
func (r *Run) Note(f string, a ...interface{}) {
	r.mu.Lock()
	defer r.mu.Unlock()
	r.notes = append(r.notes, fmt.Sprintf(f, a...))
}

// Add adds n to an integer coverage counter.
func (r *Run) Add(key string, n int64) {
	r.mu.Lock()
	defer r.mu.Unlock()
	v, _ := r.Cov[key].(int64)
	r.Cov[key] = v + n
}

// Set sets a coverage key.
func (r *Run) Set(key string, v interface{}) {
	r.mu.Lock()
	defer r.mu.Unlock()
	r.Cov[key] = v
}

func loadKnown(id string) []knownEntry {
	b, err := os.ReadFile(filepath.Join(Root(), "known_findings.json"))
	if err != nil {
		return nil
	}
	var all struct {
		Findings []knownEntry `json:"findings"`
	}
	if err := json.Unmarshal(b, &all); err != nil {
		Infra("known_findings.json does not parse: %v", err)
	}
	var out []knownEntry
	for _, e := range all.Findings {
		if e.Property == id && e.Status == "known" {
			out = append(out, e)
		}
	}
	return out
}

// Infra reports an infrastructure error (never a violation) and exits 2.
func Infra(f string, a ...interface{}) {
	fmt.Fprintf(os.Stderr, "INFRA-ERROR: "+f+"\n", a...)
	os.Exit(2)
}

// Finish attributes violations against known_findings.json, writes the
// evidence file and replay artefacts, prints the verdict lines and exits.
func (r *Run) Finish() {
	if out := os.Getenv("VERIF_SHARD_OUT"); out != "" {
		r.writeShardReport(out)
		os.Exit(0)
	}
	known := loadKnown(r.ID)
	res := make([]*regexp.Regexp, len(known))
	for i, k := range known {
		re, err := regexp.Compile("^(?:" + k.Match + ")$")
		if err != nil {
			Infra("bad match pattern in known_findings.json: %q: %v", k.Match, err)
		}
		res[i] = re
	}
	fps := make([]string, 0, len(r.violations))
	for fp := range r.violations {
		fps = append(fps, fp)
	}
	sort.Strings(fps)
	hit := make([]int, len(known))
	var unlisted []Violation
	for _, fp := range fps {
		matched := false
		for i, re := range res {
			if re.MatchString(fp) {
				hit[i]++
				matched = true
				break
			}
		}
		if !matched {
			unlisted = append(unlisted, r.violations[fp])
		}
	}
	evdir := filepath.Join(Root(), "evidence")
	if e := os.Getenv("VERIF_EVIDENCE"); e != "" {
		evdir = e
	}
	os.MkdirAll(filepath.Join(evdir, "replays"), 0o755)
	if old, _ := filepath.Glob(filepath.Join(evdir, "replays", r.ID+"-*.json")); len(old) > 0 {
		for _, f := range old {
			os.Remove(f)
		}
	}
	if p := os.Getenv("VERIF_DUMP_FPS"); p != "" {
		os.WriteFile(p, []byte(strings.Join(fps, "\n")+"\n"), 0o644)
	}
	var knownOut []map[string]interface{}
	for i, k := range known {
		if hit[i] > 0 {
			fmt.Printf("KNOWN-FINDING: property=%s %s (cases matched: %d)\n", r.ID, k.What, hit[i])
		}
		knownOut = append(knownOut, map[string]interface{}{"what": k.What, "match": k.Match, "cases_matched": hit[i]})
	}
	var replayPaths []string
	for i, v := range unlisted {
		if i >= 20 {
			break
		}
		h := sha256.Sum256([]byte(v.Fingerprint))
		p := filepath.Join(evdir, "replays", r.ID+"-"+hex.EncodeToString(h[:6])+".json")
		b, _ := json.MarshalIndent(map[string]interface{}{"property": r.ID, "tier": r.Tier, "fingerprint": v.Fingerprint, "detail": v.Detail, "replay": v.Replay}, "", " ")
		os.WriteFile(p, b, 0o644)
		replayPaths = append(replayPaths, p)
		fmt.Printf("VIOLATION property=%s replay=%s\n", r.ID, p)
		fmt.Printf("  fingerprint: %s\n  detail: %s\n", v.Fingerprint, firstLines(v.Detail, 12))
	}
	if len(unlisted) > 20 {
		fmt.Printf("  ... and %d more unlisted violations\n", len(unlisted)-20)
	}
	cov := map[string]interface{}{}
	for k, v := range r.Cov {
		cov[k] = v
	}
	if len(r.samples) == 0 {
		r.samples = append(r.samples, "no case sampled")
	}
	cov["samples"] = r.samples
	cov["exhaustive"] = r.Exhaustive
	cov["known_findings"] = knownOut
	cov["unlisted_violation_fingerprints"] = fingerprintsOf(unlisted, 20)
	if len(r.notes) > 0 {
		cov["notes"] = r.notes
	}
	ev := map[string]interface{}{
		"property_id": r.ID, "tier": r.Tier, "seed": r.Seed, "level": r.Level,
		"coverage": cov, "assumptions": r.Assume, "wall_s": time.Since(r.start).Seconds(),
		"violations": len(unlisted),
	}
	b, err := json.MarshalIndent(ev, "", " ")
	if err != nil {
		Infra("evidence does not marshal: %v", err)
	}
	if err := os.WriteFile(filepath.Join(evdir, r.ID+".json"), append(b, '\n'), 0o644); err != nil {
		Infra("cannot write evidence: %v", err)
	}
	fmt.Printf("%s %s: %s wall=%.1fs violations=%d known-matched=%d\n", r.ID, r.Tier, covSummary(cov), time.Since(r.start).Seconds(), len(unlisted), sum(hit))
	if len(unlisted) > 0 {
		os.Exit(1)
	}
	os.Exit(0)
}

func covSummary(c map[string]interface{}) string {
	var parts []string
	for _, k := range []string{"states", "transitions", "evaluations", "distinct_nontrivial", "traces_validated_against_impl", "exhaustive"} {
		if v, ok := c[k]; ok {
			parts = append(parts, fmt.Sprintf("%s=%v", k, v))
		}
	}
	return strings.Join(parts, " ")
}

func fingerprintsOf(v []Violation, n int) []string {
	out := []string{}
	for i, x := range v {
		if i >= n {
			break
		}
		out = append(out, x.Fingerprint)
	}
	return out
}

func firstLines(s string, n int) string {
	l := strings.Split(s, "\n")
	if len(l) > n {
		l = append(l[:n], "...")
	}
	return strings.Join(l, "\n  ")
}

func sum(a []int) int {
	t := 0
	for _, x := range a {
		t += x
	}
	return t
}

// Workers is the number of parallel workers to use.
func Workers() int {
	if s := os.Getenv("VERIF_WORKERS"); s != "" {
		if n, err := strconv.Atoi(s); err == nil && n > 0 {
			return n
		}
	}
	n := runtime.NumCPU()
	if n > 16 {
		n = 16
	}
	return n
}

// ParallelFor runs f(i) for i in [0,n) on Workers() goroutines. Order of
// execution is unspecified; f must only communicate through r / atomics.
func ParallelFor(n int, f func(i int)) {
	w := Workers()
	if w > n {
		w = n
	}
	if w <= 1 {
		for i := 0; i < n; i++ {
			f(i)
		}
		return
	}
	var wg sync.WaitGroup
	next := int64(0)
	var mu sync.Mutex
	for k := 0; k < w; k++ {
		wg.Add(1)
		go func() {
			defer wg.Done()
			for {
				mu.Lock()
				i := next
				next++
				mu.Unlock()
				if i >= int64(n) {
					return
				}
				f(int(i))
			}
		}()
	}
	wg.Wait()
}

// Scratch creates a scratch directory (under /dev/shm when available), points
// TMPDIR at it so RocksDB/glog droppings land there, and returns a cleanup.
func Scratch(id string) (string, func()) {
	base := "/dev/shm"
	if st, err := os.Stat(base); err != nil || !st.IsDir() {
		base = "/var/tmp"
	}
	if b := os.Getenv("VERIF_SCRATCH"); b != "" {
		base = b
	}
	dir, err := os.MkdirTemp(base, "verif-"+id+"-")
	if err != nil {
		Infra("scratch: %v", err)
	}
	os.Setenv("TMPDIR", dir)
	return dir, func() { os.RemoveAll(dir) }
}

// Hash returns a short stable hash of s.
func Hash(s string) string {
	h := sha256.Sum256([]byte(s))
	return hex.EncodeToString(h[:8])
}
