package vlib

import (
	"encoding/json"
	"fmt"
	"os"
	"os/exec"
	"path/filepath"
	"strconv"
	"strings"
	"sync"
)

// Process-level sharding: a check re-executes itself N times; each child does
// the work units it owns and reports through a JSON file; the parent merges.

type shardReport struct {
	Cov        map[string]interface{} `json:"cov"`
	Violations []Violation            `json:"violations"`
	Samples    []interface{}          `json:"samples"`
	Notes      []string               `json:"notes"`
	Exhaustive bool                   `json:"exhaustive"`
}

// Shard reports whether this process is a shard child and which one.
func (r *Run) Shard() (idx, n int, ok bool) {
	i, err1 := strconv.Atoi(os.Getenv("VERIF_SHARD_IDX"))
	m, err2 := strconv.Atoi(os.Getenv("VERIF_SHARD_N"))
	if err1 != nil || err2 != nil || m <= 0 {
		return 0, 1, false
	}
	return i, m, true
}

func (r *Run) writeShardReport(path string) {
	rep := shardReport{Cov: r.Cov, Samples: r.samples, Notes: r.notes, Exhaustive: r.Exhaustive}
	for _, v := range r.violations {
		rep.Violations = append(rep.Violations, v)
	}
	b, err := json.Marshal(rep)
	if err != nil {
		Infra("shard report: %v", err)
	}
	if err := os.WriteFile(path, b, 0o644); err != nil {
		Infra("shard report: %v", err)
	}
}

// ForkShards runs n shard children (at most Workers() at a time) and merges
// their reports into r: integer coverage keys are summed (keys starting with
// "max_" are maximised), violations are unioned by fingerprint, samples and
// notes are appended in shard order.
func (r *Run) ForkShards(n int, extraEnv ...string) {
	r.forkShards(os.Args[0], n, extraEnv...)
}

// ForkAux is ForkShards for an auxiliary binary of the same property (built by ./check from
// harness/<pkg>_<name>, path in $VERIF_AUX_<NAME>): same report protocol, same merging.
func (r *Run) ForkAux(name string, n int, extraEnv ...string) {
	bin := os.Getenv("VERIF_AUX_" + strings.ToUpper(name))
	if bin == "" {
		Infra("auxiliary binary %q was not built (VERIF_AUX_%s unset)", name, strings.ToUpper(name))
	}
	r.forkShards(bin, n, extraEnv...)
}

func (r *Run) forkShards(bin string, n int, extraEnv ...string) {
	dir, err := os.MkdirTemp("", "verif-shards-")
	if err != nil {
		Infra("%v", err)
	}
	defer os.RemoveAll(dir)
	reports := make([]*shardReport, n)
	sem := make(chan struct{}, Workers())
	var wg sync.WaitGroup
	var mu sync.Mutex
	failed := ""
	for i := 0; i < n; i++ {
		wg.Add(1)
		go func(i int) {
			defer wg.Done()
			sem <- struct{}{}
			defer func() { <-sem }()
			out := filepath.Join(dir, fmt.Sprintf("shard%d.json", i))
			cmd := exec.Command(bin, os.Args[1:]...)
			cmd.Env = append(os.Environ(), fmt.Sprintf("VERIF_SHARD_IDX=%d", i), fmt.Sprintf("VERIF_SHARD_N=%d", n), "VERIF_SHARD_OUT="+out, "VERIF_TIER="+r.Tier)
			cmd.Env = append(cmd.Env, extraEnv...)
			cmd.Stdout = os.Stderr
			cmd.Stderr = os.Stderr
			if err := cmd.Run(); err != nil {
				mu.Lock()
				failed = fmt.Sprintf("shard %d: %v", i, err)
				mu.Unlock()
				return
			}
			b, err := os.ReadFile(out)
			if err != nil {
				mu.Lock()
				failed = fmt.Sprintf("shard %d wrote no report: %v", i, err)
				mu.Unlock()
				return
			}
			var rep shardReport
			dec := json.NewDecoder(strings.NewReader(string(b)))
			dec.UseNumber()
			if err := dec.Decode(&rep); err != nil {
				mu.Lock()
				failed = fmt.Sprintf("shard %d report: %v", i, err)
				mu.Unlock()
				return
			}
			reports[i] = &rep
		}(i)
	}
	wg.Wait()
	if failed != "" {
		Infra("%s", failed)
	}
	for _, rep := range reports {
		for k, v := range rep.Cov {
			if num, ok := v.(json.Number); ok {
				if iv, err := num.Int64(); err == nil {
					old, _ := r.Cov[k].(int64)
					if strings.HasPrefix(k, "max_") {
						if iv > old {
							r.Cov[k] = iv
						}
					} else {
						r.Cov[k] = old + iv
					}
					continue
				}
			}
			r.Cov[k] = v
		}
		for _, v := range rep.Violations {
			r.Violate(v.Fingerprint, v.Detail, v.Replay)
		}
		for _, s := range rep.Samples {
			if len(r.samples) < 40 {
				r.samples = append(r.samples, s)
			}
		}
		r.notes = append(r.notes, rep.Notes...)
		if !rep.Exhaustive {
			r.Exhaustive = false
		}
	}
}

// Int returns an integer coverage counter.
func (r *Run) Int(key string) int64 {
	r.mu.Lock()
	defer r.mu.Unlock()
	v, _ := r.Cov[key].(int64)
	return v
}
