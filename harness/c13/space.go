package main

import (
	"fmt"
	"net"
	"strings"

	"github.com/miekg/dns"
)

// ---- the query alphabet (every dimension ordered simplest first; index 0 is
// the value a minimal failing case falls back to) ----

type nameDef struct{ id, pres string }

var names = []nameDef{
	{"root", "."},
	{"com", "com."},
	{"apex", "example.com."},
	{"www", "www.example.com."},
	{"deep", "a.b.c.d.e.www.example.com."},
	{"wild", "x.w.example.com."},
	{"deleg", "deleg.example.com."},
	{"below-deleg", "below.deleg.example.com."},
	{"outzone", "other.org."},
	{"upper", "WWW.Example.COM."},
	{"label63", label63 + ".example.com."},
	{"name255", name255 + "."},
	{"nul-in-label", "a\\000b.example.com."},
	{"nul-label", "\\000.example.com."},
	{"dot-in-label", "a\\.b.example.com."},
	{"big", "big.example.com."},
	{"manyns", "x.manyns.example.com."},
	{"huge", "huge.example.com."},
}

type typeDef struct {
	id string
	t  uint16
}

var types = []typeDef{
	{"A", dns.TypeA}, {"NS", dns.TypeNS}, {"SOA", dns.TypeSOA}, {"DS", dns.TypeDS}, {"ANY", dns.TypeANY},
	{"TXT", dns.TypeTXT}, {"AAAA", dns.TypeAAAA}, {"MX", dns.TypeMX},
	{"OPT", dns.TypeOPT}, {"AXFR", dns.TypeAXFR}, {"TYPE0", 0}, {"TYPE65535", 65535},
}

type classDef struct {
	id string
	c  uint16
}

var classes = []classDef{{"IN", dns.ClassINET}, {"CH", dns.ClassCHAOS}, {"ANY", dns.ClassANY}, {"CLASS0", 0}}

type opDef struct {
	id string
	op int
}

var opcodes = []opDef{{"QUERY", dns.OpcodeQuery}, {"NOTIFY", dns.OpcodeNotify}, {"UPDATE", dns.OpcodeUpdate}, {"OP15", 15}}

// question counts; 0 only through the server's mux
var qdcounts = []int{1, 2, 0}

type verDef struct {
	id   string
	edns bool
	v    uint8
}

var versions = []verDef{{"none", false, 0}, {"v0", true, 0}, {"v1", true, 1}, {"v255", true, 255}}

var udpSizes = []uint16{4096, 1232, 512, 0, 65535}

var extras = []string{"none", "rr-before-opt", "rr-after-opt"}

var clients = []string{"8.8.8.8", "10.1.1.1", "2001:db8::1"}

// ---- EDNS option lists ----

type optDef struct {
	id   string
	opts []dns.EDNS0 // raw: every option is an EDNS0_LOCAL so that any body can be put on the wire
}

func raw(code uint16, data ...byte) dns.EDNS0 {
	return &dns.EDNS0_LOCAL{Code: code, Data: append([]byte{}, data...)}
}

// ecs builds a client-subnet option body: family, source length, scope, address bytes (any number)
func ecs(family uint16, src, scope uint8, addr ...byte) dns.EDNS0 {
	return raw(dns.EDNS0SUBNET, append([]byte{byte(family >> 8), byte(family), src, scope}, addr...)...)
}

var v6full = []byte(net.ParseIP("2001:db8::1").To16())

var optLists = []optDef{
	{"none", nil},
	{"ecs1-24", []dns.EDNS0{ecs(1, 24, 0, 192, 0, 2)}},
	{"ecs1-32", []dns.EDNS0{ecs(1, 32, 0, 10, 1, 1, 1)}},
	{"ecs1-0", []dns.EDNS0{ecs(1, 0, 0)}},
	{"ecs1-24-hostbits", []dns.EDNS0{ecs(1, 24, 0, 192, 0, 2, 77)}},
	{"ecs1-24-shortaddr", []dns.EDNS0{ecs(1, 24, 0, 192)}},
	{"ecs1-8-longaddr", []dns.EDNS0{ecs(1, 8, 0, v6full...)}},
	{"ecs1-24-scope24", []dns.EDNS0{ecs(1, 24, 24, 192, 0, 2)}},
	{"ecs1-33-beyond", []dns.EDNS0{ecs(1, 33, 0, 192, 0, 2, 1, 128)}},
	{"ecs1-255-beyond", []dns.EDNS0{ecs(1, 255, 0, 192, 0, 2, 1)}},
	{"ecs2-32", []dns.EDNS0{ecs(2, 32, 0, 0x20, 0x01, 0x0d, 0xb8)}},
	{"ecs2-56", []dns.EDNS0{ecs(2, 56, 0, 0x20, 0x01, 0x0d, 0xb8, 0, 0, 0)}},
	{"ecs2-128", []dns.EDNS0{ecs(2, 128, 0, v6full...)}},
	{"ecs2-0", []dns.EDNS0{ecs(2, 0, 0)}},
	{"ecs2-64-shortaddr", []dns.EDNS0{ecs(2, 64, 0, 0x20, 0x01)}},
	{"ecs2-48-longaddr", []dns.EDNS0{ecs(2, 48, 0, append(append([]byte{}, v6full...), 1, 2, 3, 4)...)}},
	{"ecs2-129-beyond", []dns.EDNS0{ecs(2, 129, 0, append(append([]byte{}, v6full...), 128)...)}},
	{"ecs2-mapped-v4", []dns.EDNS0{ecs(2, 120, 0, 0, 0, 0, 0, 0, 0, 0, 0, 0, 0, 0xff, 0xff, 192, 0, 2)}},
	{"ecs0-0", []dns.EDNS0{ecs(0, 0, 0)}},
	{"ecs0-8", []dns.EDNS0{ecs(0, 8, 0, 10)}},
	{"ecs3-8", []dns.EDNS0{ecs(3, 8, 0, 10)}},
	{"ecs-2byte-body", []dns.EDNS0{raw(dns.EDNS0SUBNET, 0, 1)}},
	{"cookie8", []dns.EDNS0{raw(dns.EDNS0COOKIE, 1, 2, 3, 4, 5, 6, 7, 8)}},
	{"cookie24", []dns.EDNS0{raw(dns.EDNS0COOKIE, 1, 2, 3, 4, 5, 6, 7, 8, 9, 10, 11, 12, 13, 14, 15, 16, 17, 18, 19, 20, 21, 22, 23, 24)}},
	{"nsid", []dns.EDNS0{raw(dns.EDNS0NSID)}},
	{"padding16", []dns.EDNS0{raw(dns.EDNS0PADDING, make([]byte, 16)...)}},
	{"keepalive", []dns.EDNS0{raw(dns.EDNS0TCPKEEPALIVE, 0, 100)}},
	{"unknown", []dns.EDNS0{raw(65001, 0xde, 0xad, 0xbe, 0xef)}},
	{"unknown-empty", []dns.EDNS0{raw(4242)}},
	{"two-ecs-v4-v6", []dns.EDNS0{ecs(1, 24, 0, 192, 0, 2), ecs(2, 56, 0, 0x20, 0x01, 0x0d, 0xb8, 0, 0, 0)}},
	{"two-ecs-fam0-v4", []dns.EDNS0{ecs(0, 0, 0), ecs(1, 24, 0, 192, 0, 2)}},
	{"ecs+cookie+nsid+padding+unknown", []dns.EDNS0{raw(65001, 1), ecs(1, 24, 0, 192, 0, 2), raw(dns.EDNS0COOKIE, 1, 2, 3, 4, 5, 6, 7, 8), raw(dns.EDNS0NSID), raw(dns.EDNS0PADDING, 0, 0, 0, 0)}},
}

func optIdx(id string) uint8 {
	for i, o := range optLists {
		if o.id == id {
			return uint8(i)
		}
	}
	panic("option list not in alphabet: " + id)
}

// the unknown option added to a query to make its metamorphic twin
var twinOption = raw(65002, 'v', 'e', 'r', 'i', 'f')

// spellings of the question name: as listed, or with the case of every ASCII letter toggled
// (DNS 0x20 randomisation: the same name for the database and for the cache key, other bytes on the wire)
var spellings = []string{"as-listed", "case-toggled"}

// header flag sets of the query (none of them is in the response cache key)
type bitsDef struct {
	id         string
	rd, cd, ad bool
}

var flagSets = []bitsDef{{"none", false, false, false}, {"rd", true, false, false}, {"cd", false, true, false}, {"rd+cd+ad", true, true, true}}

// firsts are the queries that may PRECEDE a case on a handler with the response
// cache enabled (index 0 of the dimension: no preceding query, cache disabled).
// A preceding query has the name (as listed), type, class and client address of
// the case it precedes - the things the cache key is made of - and its own values
// in the dimensions the key ignores; it is sent on an empty cache, so that it
// populates the entry (if the answer is cacheable) which the case then hits.
type firstDef struct {
	id           string
	q            qcase // only the key-ignored dimensions are used
	thoroughOnly bool
}

var firsts = []firstDef{
	{"none", qcase{}, false},
	{"plain-udp", qcase{}, false},
	{"toggled-edns4096-do-cookie-tcp-rd+cd+ad", qcase{cas: 1, ver: 1, size: sizeIdx(4096), do: 1, opts: optIdx("cookie8"), tcp: 1, bits: 3}, false},
	{"edns512-udp-rd", qcase{ver: 1, size: sizeIdx(512), bits: 1}, false},
	{"notify-2questions-extra-rr", qcase{op: 1, qd: 1, extra: 1}, true},
}

// ---- one query of the space ----

type qcase struct {
	name, typ, ver                    uint8 // core (full product with databases and backends)
	size, do, tcp                     uint8 // size group
	opts                              uint8
	op, qd, class, extra, client, via uint8 // header group (+ client address, + entry point)
	cas, bits                         uint8 // spelling of the question name, header flags
	pre                               uint8 // index into firsts: the query sent before this one (0: none, cache disabled)
}

func hasLetters(s string) bool {
	for i := 0; i < len(s); i++ {
		if b := s[i] | 0x20; b >= 'a' && b <= 'z' {
			return true
		}
	}
	return false
}

// toggleCase toggles the case of every ASCII letter of a presentation-format
// name (escapes consist of a backslash followed by digits or a non-letter here).
func toggleCase(s string) string {
	b := []byte(s)
	for i := range b {
		if l := b[i] | 0x20; l >= 'a' && l <= 'z' {
			b[i] ^= 0x20
		}
	}
	return string(b)
}

func (c qcase) normalised() qcase {
	if !versions[c.ver].edns {
		c.size, c.do, c.opts = 0, 0, 0
		if c.extra == 2 {
			c.extra = 1 // without an OPT "before" and "after" are the same message
		}
	}
	if c.cas == 1 && (qdcounts[c.qd] == 0 || !hasLetters(names[c.name].pres)) {
		c.cas = 0 // nothing to toggle
	}
	return c
}

func (c qcase) valid() bool {
	if qdcounts[c.qd] == 0 && c.via == 0 {
		return false // a message without a question never reaches the handler directly
	}
	if c.pre > 0 && c.via != 0 {
		return false // two-query histories go to the handler directly (the mux in front of it is stateless)
	}
	return true
}

// first is the query that precedes c (c.pre > 0).
func (c qcase) first() qcase {
	f := firsts[c.pre].q
	f.name, f.typ, f.class, f.client = c.name, c.typ, c.class, c.client
	f.pre, f.via = 0, 0
	return f.normalised()
}

func (c qcase) String() string {
	var sb strings.Builder
	fmt.Fprintf(&sb, "%s,%s,%s,op=%s,qd=%d", names[c.name].id, types[c.typ].id, classes[c.class].id, opcodes[c.op].id, qdcounts[c.qd])
	v := versions[c.ver]
	if v.edns {
		fmt.Fprintf(&sb, ",edns=%s:size=%d:do=%d,opts=%s", v.id, udpSizes[c.size], c.do, optLists[c.opts].id)
	} else {
		sb.WriteString(",edns=none")
	}
	fmt.Fprintf(&sb, ",extra=%s,%s,client=%s", extras[c.extra], [...]string{"udp", "tcp"}[c.tcp], clients[c.client])
	if c.via == 1 {
		sb.WriteString(",via=mux")
	}
	if c.cas != 0 {
		sb.WriteString(",name=" + spellings[c.cas])
	}
	if c.bits != 0 {
		sb.WriteString(",flags=" + flagSets[c.bits].id)
	}
	if c.pre != 0 {
		sb.WriteString(",cache-on-after=" + firsts[c.pre].id)
	}
	return sb.String()
}

// queryID is a deterministic, case-dependent message id (never 0).
func (c qcase) queryID() uint16 {
	h := uint32(2166136261)
	for _, b := range []uint8{c.name, c.typ, c.ver, c.size, c.do, c.tcp, c.opts, c.op, c.qd, c.class, c.extra, c.client, c.via, c.cas, c.bits, c.pre} {
		h = (h ^ uint32(b)) * 16777619
	}
	id := uint16(h>>16) ^ uint16(h)
	if id == 0 {
		id = 1
	}
	return id
}

// build constructs the message for the case (twin: with one more, unknown,
// EDNS option put in FRONT of the option list; twin==2: at the end).
func (c qcase) build(twin int) *dns.Msg {
	m := new(dns.Msg)
	m.Id = c.queryID()
	m.Opcode = opcodes[c.op].op
	fl := flagSets[c.bits]
	m.RecursionDesired, m.CheckingDisabled, m.AuthenticatedData = fl.rd, fl.cd, fl.ad
	n := qdcounts[c.qd]
	if n >= 1 {
		qn := names[c.name].pres
		if c.cas == 1 {
			qn = toggleCase(qn)
		}
		m.Question = append(m.Question, dns.Question{Name: qn, Qtype: types[c.typ].t, Qclass: classes[c.class].c})
	}
	if n >= 2 {
		m.Question = append(m.Question, dns.Question{Name: "second.example.com.", Qtype: dns.TypeTXT, Qclass: dns.ClassINET})
	}
	extraRR := func() dns.RR {
		return &dns.A{Hdr: dns.RR_Header{Name: "extra.example.com.", Rrtype: dns.TypeA, Class: dns.ClassINET, Ttl: 5}, A: net.IPv4(192, 0, 2, 200).To4()}
	}
	v := versions[c.ver]
	if c.extra == 1 {
		m.Extra = append(m.Extra, extraRR())
	}
	if v.edns {
		o := &dns.OPT{Hdr: dns.RR_Header{Name: ".", Rrtype: dns.TypeOPT}}
		o.SetUDPSize(udpSizes[c.size])
		o.SetVersion(v.v)
		if c.do == 1 {
			o.SetDo()
		}
		if twin == 1 {
			o.Option = append(o.Option, twinOption)
		}
		o.Option = append(o.Option, optLists[c.opts].opts...)
		if twin == 2 {
			o.Option = append(o.Option, twinOption)
		}
		m.Extra = append(m.Extra, o)
	}
	if c.extra == 2 {
		m.Extra = append(m.Extra, extraRR())
	}
	return m
}

// wire packs the case; the result is what a client would put on the network.
func (c qcase) wire(twin int) ([]byte, error) { return c.build(twin).Pack() }
