// C13: any wire-valid query gets a well-formed reply or none; the server never panics.
//
// A structured product of DNS query messages (see space.go) is PACKED and
// UNPACKED with miekg/dns - exactly what dns.Server does before it calls a
// handler - and handed to the real FBDNSDB.ServeDNS (and, for a part of the
// space including question count 0, to fbserver's serveMux in front of it) on
// five databases x three storage configurations, all compiled by the real
// compilers. Every outcome is judged against the statement (oracle.go); every
// failing case is simplified to a local minimum before it is reported.
package main

import (
	"encoding/hex"
	"encoding/json"
	"fmt"
	"math/rand"
	"os"
	"runtime/debug"
	"runtime/pprof"
	"sort"
	"strings"
	"sync"

	"github.com/facebookincubator/dns/dnsrocks/db"
	"github.com/miekg/dns"

	"verifharness/dnsfix"
	"verifharness/vlib"
)

// ---- deterministic stand-in for the package's random source ----
// Address records are emitted in shuffled order and a record whose weighted key
// draws exactly 0 is dropped (C11's subject). The source below never yields a
// draw of 0, so the set of records in a reply is a function of the query.
type neverZero struct {
	mu sync.Mutex
	x  uint64
}

func (s *neverZero) Seed(int64) {}
func (s *neverZero) Uint64() uint64 {
	s.mu.Lock()
	s.x += 0x9e3779b97f4a7c15
	z := s.x
	s.mu.Unlock()
	z = (z ^ (z >> 30)) * 0xbf58476d1ce4e5b9
	z = (z ^ (z >> 27)) * 0x94d049bb133111eb
	return z ^ (z >> 31)
}
func (s *neverZero) Int63() int64 { return int64(s.Uint64()>>1 | 1<<62) } // Uint32() = top bits: >= 2^31

// ---- enumeration of the cases of one (name, type) cell ----

var reducedNames = map[string]bool{"root": true, "apex": true, "deleg": true, "big": true, "name255": true}
var reducedTypes = map[string]bool{"A": true, "DS": true, "ANY": true}

func sizeIdx(v uint16) uint8 {
	for i, s := range udpSizes {
		if s == v {
			return uint8(i)
		}
	}
	panic("size not in alphabet")
}

type caseList struct {
	list   []qcase
	blocks map[string]int64
}

func casesFor(n, t uint8, thorough bool) caseList { return casesOf(n, t, thorough, true) }

func casesOf(n, t uint8, thorough, withHistories bool) caseList {
	cl := caseList{blocks: map[string]int64{}}
	seen := map[qcase]bool{}
	add := func(block string, c qcase) {
		c.name, c.typ = n, t
		c = c.normalised()
		if !c.valid() || seen[c] {
			return
		}
		seen[c] = true
		cl.list = append(cl.list, c)
		cl.blocks[block]++
	}
	reduced := reducedNames[names[n].id] && reducedTypes[types[t].id]
	nv, ns, no := uint8(len(versions)), uint8(len(udpSizes)), uint8(len(optLists))

	// A: EDNS version x advertised size x DO x transport (full)
	for v := uint8(0); v < nv; v++ {
		for s := uint8(0); s < ns; s++ {
			for d := uint8(0); d < 2; d++ {
				for tc := uint8(0); tc < 2; tc++ {
					add("A:version*size*do*transport", qcase{ver: v, size: s, do: d, tcp: tc})
				}
			}
		}
	}
	// B: option lists x EDNS version x (size, DO, transport)
	type sdt struct{ s, d, t uint8 }
	var combos []sdt
	if thorough {
		for s := uint8(0); s < ns; s++ {
			for d := uint8(0); d < 2; d++ {
				for tc := uint8(0); tc < 2; tc++ {
					combos = append(combos, sdt{s, d, tc})
				}
			}
		}
	} else {
		combos = []sdt{{sizeIdx(4096), 0, 0}, {sizeIdx(512), 1, 1}}
	}
	for v := uint8(1); v < nv; v++ {
		for o := uint8(1); o < no; o++ {
			for i, x := range combos {
				if !thorough && ((v == 1 && i >= 2) || (v > 1 && i >= 1)) {
					break // quick: two combinations with version 0, one with an unsupported version
				}
				add("B:options*version*size-do-transport", qcase{ver: v, opts: o, size: x.s, do: x.d, tcp: x.t})
			}
		}
	}
	// C: header group: opcode, question count, class, extra additional RR, client address
	full := func(v uint8) {
		for op := uint8(0); op < uint8(len(opcodes)); op++ {
			for qd := uint8(0); qd < 2; qd++ {
				for cl := uint8(0); cl < uint8(len(classes)); cl++ {
					for ex := uint8(0); ex < uint8(len(extras)); ex++ {
						for ci := uint8(0); ci < uint8(len(clients)); ci++ {
							if !thorough && ci > 0 {
								break // quick: the client address only alone and in pairs (D)
							}
							add("C:opcode*qdcount*class*extra*client", qcase{ver: v, op: op, qd: qd, class: cl, extra: ex, client: ci})
						}
					}
				}
			}
		}
	}
	for v := uint8(0); v < nv; v++ {
		// spelling of the name and header flags (RD, CD, AD): alone
		add("C:header-dimension-alone", qcase{ver: v, cas: 1})
		for b := uint8(1); b < uint8(len(flagSets)); b++ {
			add("C:header-dimension-alone", qcase{ver: v, bits: b})
		}
		add("C:header-dimension-alone", qcase{ver: v, cas: 1, bits: uint8(len(flagSets) - 1)})
		if thorough || reduced {
			full(v)
		}
		if thorough {
			continue
		}
		for op := uint8(1); op < uint8(len(opcodes)); op++ {
			add("C:header-dimension-alone", qcase{ver: v, op: op})
		}
		add("C:header-dimension-alone", qcase{ver: v, qd: 1})
		for cl := uint8(1); cl < uint8(len(classes)); cl++ {
			add("C:header-dimension-alone", qcase{ver: v, class: cl})
		}
		for ex := uint8(1); ex < uint8(len(extras)); ex++ {
			add("C:header-dimension-alone", qcase{ver: v, extra: ex})
		}
		for ci := uint8(1); ci < uint8(len(clients)); ci++ {
			add("C:header-dimension-alone", qcase{ver: v, client: ci})
		}
	}
	// D: every header-group value with every size-group / option value (pairs)
	if thorough || reduced {
		var hs []qcase
		for op := uint8(1); op < uint8(len(opcodes)); op++ {
			hs = append(hs, qcase{op: op})
		}
		hs = append(hs, qcase{qd: 1})
		for cl := uint8(1); cl < uint8(len(classes)); cl++ {
			hs = append(hs, qcase{class: cl})
		}
		for ex := uint8(1); ex < uint8(len(extras)); ex++ {
			hs = append(hs, qcase{extra: ex})
		}
		for ci := uint8(1); ci < uint8(len(clients)); ci++ {
			hs = append(hs, qcase{client: ci})
		}
		vers := []uint8{1}
		if thorough {
			vers = []uint8{1, 2}
		}
		for _, v := range vers {
			for _, h := range hs {
				h.ver = v
				for s := uint8(1); s < ns; s++ {
					x := h
					x.size = s
					add("D:header-value*size-or-option-value", x)
				}
				x := h
				x.do = 1
				add("D:header-value*size-or-option-value", x)
				x = h
				x.tcp = 1
				add("D:header-value*size-or-option-value", x)
				for o := uint8(1); o < no; o++ {
					x = h
					x.opts = o
					add("D:header-value*size-or-option-value", x)
				}
			}
		}
	}
	// P: two-query histories on a handler with the response cache enabled: a preceding query with the
	// same cache key (name up to spelling, type, class, client) and other values in the dimensions the
	// key ignores, then the case; both judged by the statement, each against its own query
	if withHistories && !thorough {
		for pre := uint8(1); pre < uint8(len(firsts)); pre++ {
			if firsts[pre].thoroughOnly {
				continue
			}
			for cas := uint8(0); cas < 2; cas++ {
				for tc := uint8(0); tc < 2; tc++ {
					add("P:preceding-query*spelling*version-size-do-transport", qcase{pre: pre, cas: cas, tcp: tc})
				}
				for s := uint8(0); s < ns; s++ {
					for d := uint8(0); d < 2; d++ {
						for tc := uint8(0); tc < 2; tc++ {
							add("P:preceding-query*spelling*version-size-do-transport", qcase{pre: pre, cas: cas, ver: 1, size: s, do: d, tcp: tc})
						}
					}
				}
				add("P:preceding-query*spelling*version-size-do-transport", qcase{pre: pre, cas: cas, ver: 2})
			}
			// the other dimensions the cache key ignores (or, for a client-subnet option, may turn into
			// another key): each value alone, with the toggled spelling, without and with EDNS
			for v := uint8(0); v < 2; v++ {
				for op := uint8(1); op < uint8(len(opcodes)); op++ {
					add("P:preceding-query*header-or-option-value", qcase{pre: pre, cas: 1, ver: v, op: op})
				}
				add("P:preceding-query*header-or-option-value", qcase{pre: pre, cas: 1, ver: v, qd: 1})
				for b := uint8(1); b < uint8(len(flagSets)); b++ {
					add("P:preceding-query*header-or-option-value", qcase{pre: pre, cas: 1, ver: v, bits: b})
				}
				for ex := uint8(1); ex < uint8(len(extras)); ex++ {
					add("P:preceding-query*header-or-option-value", qcase{pre: pre, cas: 1, ver: v, extra: ex})
				}
			}
			for _, id := range []string{"ecs1-24", "ecs2-56", "cookie8", "unknown", "ecs+cookie+nsid+padding+unknown"} {
				add("P:preceding-query*header-or-option-value", qcase{pre: pre, cas: 1, ver: 1, opts: optIdx(id)})
			}
		}
	}
	if withHistories && thorough {
		// thorough: every direct single-query case of the QUICK factoring x both spellings x every preceding query
		for _, c := range casesOf(n, t, false, false).list {
			if c.via != 0 {
				continue
			}
			for pre := uint8(1); pre < uint8(len(firsts)); pre++ {
				for cas := uint8(0); cas < 2; cas++ {
					x := c
					x.pre, x.cas = pre, cas
					add("P:preceding-query*spelling*quick-tier-single-query-case", x)
				}
			}
		}
	}
	// M: through fbserver's serveMux, question count 0, 1, 2
	for v := uint8(0); v < nv; v++ {
		for qd := uint8(0); qd < uint8(len(qdcounts)); qd++ {
			for tc := uint8(0); tc < 2; tc++ {
				add("M:mux*qdcount*version*transport", qcase{via: 1, ver: v, qd: qd, tcp: tc})
			}
		}
	}
	return cl
}

// ---- statistics ----

type stats struct {
	mu                                                       sync.Mutex
	cases, reached, rejected, calls, minCalls                int64
	replies, noReply, nontrivial, positive, truncated        int64
	tcOversize, twins, failing, attributed, minimised        int64
	firstOfMany, pairs, pairHits, pairFirstCached            int64
	maxUDP, maxTCP                                           int64
	rcodes, blocks, kinds, rejectedOpts, perDB, nontrivPerDB map[string]int64
}

func newStats() *stats {
	return &stats{rcodes: map[string]int64{}, blocks: map[string]int64{}, kinds: map[string]int64{}, rejectedOpts: map[string]int64{}, perDB: map[string]int64{}, nontrivPerDB: map[string]int64{}}
}

func (s *stats) merge(o *stats) {
	s.mu.Lock()
	defer s.mu.Unlock()
	s.cases += o.cases
	s.reached += o.reached
	s.rejected += o.rejected
	s.calls += o.calls
	s.minCalls += o.minCalls
	s.replies += o.replies
	s.noReply += o.noReply
	s.nontrivial += o.nontrivial
	s.positive += o.positive
	s.truncated += o.truncated
	s.tcOversize += o.tcOversize
	s.twins += o.twins
	s.firstOfMany += o.firstOfMany
	s.pairs += o.pairs
	s.pairHits += o.pairHits
	s.pairFirstCached += o.pairFirstCached
	s.failing += o.failing
	s.attributed += o.attributed
	s.minimised += o.minimised
	if o.maxUDP > s.maxUDP {
		s.maxUDP = o.maxUDP
	}
	if o.maxTCP > s.maxTCP {
		s.maxTCP = o.maxTCP
	}
	for _, p := range []struct{ a, b map[string]int64 }{{s.rcodes, o.rcodes}, {s.blocks, o.blocks}, {s.kinds, o.kinds}, {s.rejectedOpts, o.rejectedOpts}, {s.perDB, o.perDB}, {s.nontrivPerDB, o.nontrivPerDB}} {
		for k, v := range p.b {
			p.a[k] += v
		}
	}
}

// ---- one work unit: (database, backend, name, type) ----

type unit struct {
	e    *env
	n, t uint8
	cost int
}

func fingerprint(kind string, e *env, c qcase) string {
	return fmt.Sprintf("%s/%s/%s/%s", kind, e.backend, e.db, c)
}

func replayOf(e *env, text string, c qcase) map[string]interface{} {
	rp := map[string]interface{}{"db": e.db, "backend": e.backend.String(), "case": c.String(), "case_indices": c, "client": clients[c.client], "tcp": c.tcp == 1, "via_mux": c.via == 1}
	if w, err := c.wire(0); err == nil {
		rp["query_wire_hex"] = hex.EncodeToString(w)
	}
	if c.pre > 0 {
		rp["cache"] = "enabled, empty before the preceding query"
		rp["preceding_query"] = c.first().String()
		if m := c.first().parse(); m != nil {
			m.Id = c.firstID()
			if w, err := m.Pack(); err == nil {
				rp["preceding_query_wire_hex"] = hex.EncodeToString(w)
			}
		}
	}
	if len(text) <= 4096 {
		rp["data"] = text
	} else {
		rp["data"] = "see harness/c13/dbs.go, database " + e.db
	}
	return rp
}

func runUnit(r *vlib.Run, idx int, u unit, text string, twins []int, st *stats) string {
	loc := newStats()
	cl := casesFor(u.n, u.t, r.Thorough())
	for k, v := range cl.blocks {
		loc.blocks[k] += v
	}
	var mm memo
	sample := ""
	for i, c := range cl.list {
		var obs observation
		fs := u.e.eval(c, twins, &obs, &loc.calls)
		loc.cases++
		loc.perDB[u.e.db+"/"+u.e.backend.String()]++
		if !obs.reachedHandler {
			loc.rejected++
			loc.rejectedOpts[optLists[c.opts].id]++
			continue
		}
		loc.reached++
		loc.twins += int64(obs.twinRan)
		if c.pre > 0 {
			loc.pairs++
			if obs.cacheHit {
				loc.pairHits++
			}
			if obs.firstCached {
				loc.pairFirstCached++
			}
		}
		if obs.replied {
			loc.replies++
			loc.rcodes[rcodeName(obs.rcode)]++
			if obs.nontrivial {
				loc.nontrivial++
				loc.nontrivPerDB[u.e.db+"/"+u.e.backend.String()]++
			}
			if obs.positive {
				loc.positive++
			}
			if obs.truncated {
				loc.truncated++
			}
			if obs.tcOversize {
				loc.tcOversize++
			}
			if obs.firstOfMany {
				loc.firstOfMany++
			}
			if c.tcp == 1 && int64(obs.wireLen) > loc.maxTCP {
				loc.maxTCP = int64(obs.wireLen)
			}
			if c.tcp == 0 && int64(obs.wireLen) > loc.maxUDP {
				loc.maxUDP = int64(obs.wireLen)
			}
		} else if len(fs) == 0 {
			loc.noReply++
		}
		if i == (idx*7919)%len(cl.list) {
			sample = fmt.Sprintf("%s/%s %s -> replied=%v rcode=%s len=%d tc=%v findings=%d", u.e.backend, u.e.db, c, obs.replied, rcodeName(obs.rcode), obs.wireLen, obs.truncated, len(fs))
		}
		if len(fs) > 0 {
			loc.failing++
		}
		for _, f := range fs {
			loc.kinds[f.kind]++
			if mm.covered(f.kind, c) {
				loc.attributed++
				continue
			}
			min, mf := u.e.minimise(c, f.kind, twins, &loc.minCalls)
			loc.minimised++
			mm.record(f.kind, c, min)
			r.Violate(fingerprint(f.kind, u.e, min), fmt.Sprintf("%s on %s: query %s\n%s\n(first seen as %s)", u.e.db, u.e.backend, min, mf.detail, c), replayOf(u.e, text, min))
		}
	}
	st.merge(loc)
	return sample
}

func main() {
	for i, a := range os.Args {
		if a == "--replay" && i+1 < len(os.Args) {
			replay(os.Args[i+1])
			return
		}
	}
	if pf := os.Getenv("VERIF_C13_PROF"); pf != "" {
		f, _ := os.Create(pf)
		pprof.StartCPUProfile(f)
		defer pprof.StopCPUProfile()
	}
	r := vlib.Start("C13")
	dir, clean := vlib.Scratch("c13")
	defer clean()
	dnsfix.Quiet(dir)
	db.SetRandForVerif(rand.New(&neverZero{}))

	debug.SetGCPercent(400)
	dbs := databases()
	envs := make([]*env, len(dbs)*len(dnsfix.Backends))
	texts := map[string]string{}
	for _, d := range dbs {
		texts[d.name] = d.text
	}
	vlib.ParallelFor(len(envs), func(i int) {
		d, b := dbs[i/len(dnsfix.Backends)], dnsfix.Backends[i%len(dnsfix.Backends)]
		p, err := dnsfix.Compile(dir, b, []byte(d.text))
		if err != nil {
			vlib.Infra("compile %s on %s: %v", d.name, b, err)
		}
		h, err := dnsfix.OpenHandler(b, p, dnsfix.HandlerOpts{})
		if err != nil {
			vlib.Infra("open %s on %s: %v", d.name, b, err)
		}
		envs[i] = newEnv(d.name, b, h, p)
	})
	twins := []int{1}
	if r.Thorough() {
		twins = []int{1, 2}
	}

	var units []unit
	for _, e := range envs {
		for n := range names {
			for t := range types {
				cost := 1
				if e.db == "big" && (names[n].id == "huge" || names[n].id == "big" || names[n].id == "manyns") {
					cost = 3
					if id := types[t].id; names[n].id == "huge" && (id == "TXT" || id == "ANY") {
						cost = 100
					}
				}
				if reducedNames[names[n].id] && reducedTypes[types[t].id] {
					cost *= 3
				}
				units = append(units, unit{e, uint8(n), uint8(t), cost})
			}
		}
	}
	sort.SliceStable(units, func(i, j int) bool { return units[i].cost > units[j].cost })

	st := newStats()
	samples := make([]string, len(units))
	vlib.ParallelFor(len(units), func(i int) {
		samples[i] = runUnit(r, i, units[i], texts[units[i].e.db], twins, st)
	})
	for _, e := range envs {
		e.close()
	}
	clean() // Finish exits the process: deferred calls do not run
	for i := 0; i < len(samples); i += 97 {
		r.Sample(samples[i])
	}

	r.Set("states", st.cases)
	r.Set("transitions", st.calls)
	r.Set("traces_validated_against_impl", st.calls)
	r.Set("evaluations", st.calls+st.twins)
	r.Set("distinct_nontrivial", st.nontrivial)
	r.Set("cases_reaching_handler", st.reached)
	r.Set("cases_rejected_by_miekg_pack_or_unpack", st.rejected)
	r.Set("rejected_by_option_list", st.rejectedOpts)
	r.Set("metamorphic_pairs", st.twins)
	r.Set("replies", st.replies)
	r.Set("no_reply_cases", st.noReply)
	r.Set("replies_with_answer_records", st.positive)
	r.Set("replies_truncated", st.truncated)
	r.Set("replies_tc_set_but_still_over_limit", st.tcOversize)
	r.Set("replies_to_two_question_queries_echoing_only_the_first", st.firstOfMany)
	r.Set("two_query_histories", st.pairs)
	r.Set("two_query_histories_first_query_cached", st.pairFirstCached)
	r.Set("two_query_histories_second_served_from_cache", st.pairHits)
	r.Set("largest_udp_reply", st.maxUDP)
	r.Set("largest_tcp_reply", st.maxTCP)
	r.Set("reply_rcodes", st.rcodes)
	r.Set("cases_by_block", st.blocks)
	r.Set("cases_by_database_backend", st.perDB)
	r.Set("nontrivial_by_database_backend", st.nontrivPerDB)
	r.Set("failing_cases", st.failing)
	r.Set("failing_observations_by_kind", st.kinds)
	r.Set("failing_observations_minimised", st.minimised)
	r.Set("failing_observations_attributed_to_a_minimised_one", st.attributed)
	r.Set("handler_calls_spent_minimising", st.minCalls)
	r.Set("databases", len(dbs))
	r.Set("backends", len(dnsfix.Backends))
	r.Set("alphabet", map[string]int{"names": len(names), "types": len(types), "classes": len(classes), "opcodes": len(opcodes), "qdcounts": len(qdcounts), "edns_versions": len(versions), "udp_sizes": len(udpSizes), "option_lists": len(optLists), "extras": len(extras), "clients": len(clients), "transports": 2, "entry_points": 2, "name_spellings": len(spellings), "header_flag_sets": len(flagSets), "preceding_queries": len(firsts) - 1})
	factoring := "quick: header values alone on the full core, their full product and the pairs (D) only on the reduced core {root,apex,deleg,big,name255}x{A,DS,ANY}; the client address not inside that full product; option lists with 2 (size,DO,transport) combinations for version 0 and 1 for unsupported versions; P with 3 preceding queries x both spellings x {no EDNS, v0 x every size x DO, v1} x transport, plus every opcode / second question / flag set / extra RR / 5 option lists alone"
	if r.Thorough() {
		factoring = "thorough: header group fully crossed with the core; option lists with every (size,DO,transport); pairs (D) on the full core with v0 and v1; twin option both in front of and behind the option list; P = every direct case of the quick factoring x both spellings x 4 preceding queries"
	}
	r.Set("rule", "structured product. CORE = name x type x EDNS version x database x backend, always a FULL product ("+fmt.Sprint(len(names)*len(types)*len(versions)*len(dbs)*len(dnsfix.Backends))+" cells). Each core cell is crossed with: A = advertised size x DO x transport (full); B = option list x (size,DO,transport); C = header group opcode x qdcount x class x extra-additional-RR x client address; D = every header-group value paired with every size/DO/transport/option value; M = the same message through fbserver's serveMux with qdcount 0/1/2 x transport; P = TWO-QUERY HISTORIES on a second real handler over the same files with the response cache ENABLED and emptied first: a preceding query ("+fmt.Sprint(len(firsts)-1)+" shapes: plain UDP; toggled spelling + EDNS 4096 + DO + cookie + TCP + RD/CD/AD; EDNS 512 UDP + RD; NOTIFY + second question + extra RR) with the case's name (as listed), type, class and client address - i.e. its cache key - and a different message id, then the case itself in either spelling (name as listed / case of every letter toggled); both replies are judged by the same rules, each against its own query, and a disagreement is reported under after-cached-query/ (needs the preceding query), cache-enabled/ or cache-enabled-first/ (needs only the cache switched on) when it does not occur without the cache. Spelling and the header flags RD/CD/AD are also single-query dimensions (alone, block C). Factored (not fully crossed) because they cannot interact in the code: the header group (opcode, second question, class, extra RR; they only flow into SetReply and the class field of synthesised RRs) against the size group and the option lists (which only flow into OPT handling, location lookup and Scrub/Truncate) - covered pairwise by D. "+factoring+". Every message is packed and unpacked by miekg/dns first; messages it refuses never reach a handler and are counted separately. states = distinct (database, backend, query) cases; transitions = calls of the real ServeDNS (cases + metamorphic twins); evaluations = oracle applications (one per call + one per metamorphic comparison); nontrivial = single-query cases with a reply other than REFUSED + two-query histories whose second query was served from the cache (hit counter of the handler's statistics sink). Failing cases are simplified one dimension at a time towards the first value of each dimension until no single simplification keeps the same kind of failure; fingerprints name that local minimum.")
	pprof.StopCPUProfile()
	r.Assume = []string{
		"miekg/dns Pack/Unpack define wire validity (the real server uses the same parser); bytes miekg cannot represent (compression pointers in questions, trailing garbage, TSIG) are outside the space",
		"the package's random source is replaced by a deterministic one that never draws 0 and maxAnswer is 200, so the content of a reply is a function of the query; record order inside a section is not compared",
		"single-query blocks: response cache disabled; block P: cache enabled (LRU 64 entries, never full: emptied before every history), histories of exactly two queries with the same cache key - longer histories, reloads and equality of cached and uncached answers are C12's; entry expiry (1000 s) is not reached; handler configuration otherwise default (AlwaysCompress off)",
		"the preceding queries never carry a client-subnet option and share the case's client address, so they differ from the case in location only when the case itself carries a client-subnet option (then the second query is a cache miss, counted as trivial)",
		"a UDP reply larger than the client's limit WITH TC set is reported under its own kind (size/udp-over-limit-despite-tc): 'truncated' is read as 'cut down to the size'; size/udp is the literal reading (over the limit and TC clear)",
		"question section equality is exact (name bytes, type, class, count), except that a query with two questions may be answered with its first question alone in the question section: the repository's own TestDNSDBMultipleQuestions documents that as the intended baseline (counted in replies_to_two_question_queries_echoing_only_the_first)",
		"a message with no question (only reachable through the mux, which answers SERVFAIL) is not required to get BADVERS for an unsupported EDNS version",
	}
	r.Finish()
}

// ---- replay ----

func replay(path string) {
	b, err := os.ReadFile(path)
	if err != nil {
		vlib.Infra("replay: %v", err)
	}
	var rf struct {
		Fingerprint string `json:"fingerprint"`
		Replay      struct {
			DB      string    `json:"db"`
			Backend string    `json:"backend"`
			Case    qcaseJSON `json:"case_indices"`
		} `json:"replay"`
	}
	if err := json.Unmarshal(b, &rf); err != nil {
		vlib.Infra("replay: %v", err)
	}
	dir, clean := vlib.Scratch("c13r")
	defer clean()
	dnsfix.Quiet(dir)
	db.SetRandForVerif(rand.New(&neverZero{}))
	kind := rf.Fingerprint
	if i := strings.Index(kind, "/"+rf.Replay.Backend+"/"); i >= 0 {
		kind = kind[:i]
	}
	for _, d := range databases() {
		if d.name != rf.Replay.DB {
			continue
		}
		for _, be := range dnsfix.Backends {
			if be.String() != rf.Replay.Backend {
				continue
			}
			p, err := dnsfix.Compile(dir, be, []byte(d.text))
			if err != nil {
				vlib.Infra("compile: %v", err)
			}
			h, err := dnsfix.OpenHandler(be, p, dnsfix.HandlerOpts{})
			if err != nil {
				vlib.Infra("open: %v", err)
			}
			e := newEnv(d.name, be, h, p)
			c := rf.Replay.Case.qcase()
			var obs observation
			var calls int64
			fs := e.eval(c, []int{1, 2}, &obs, &calls)
			fmt.Printf("case %s on %s/%s\n", c, be, d.name)
			if w, err := c.wire(0); err == nil {
				m := new(dns.Msg)
				if m.Unpack(w) == nil {
					fmt.Printf("query:\n%v\n", m)
				}
			}
			still := false
			for _, f := range fs {
				fmt.Printf("FINDING %s: %s\n", f.kind, f.detail)
				if f.kind == kind {
					still = true
				}
			}
			e.close()
			clean()
			if still {
				fmt.Println("REPRODUCED")
				os.Exit(1)
			}
			fmt.Println("not reproduced")
			os.Exit(0)
		}
	}
	vlib.Infra("replay: database/backend %s/%s unknown", rf.Replay.DB, rf.Replay.Backend)
}

type qcaseJSON struct {
	Name, Typ, Ver, Size, Do, TCP, Opts, Op, Qd, Class, Extra, Client, Via, Cas, Bits, Pre uint8
}

func (j qcaseJSON) qcase() qcase {
	return qcase{name: j.Name, typ: j.Typ, ver: j.Ver, size: j.Size, do: j.Do, tcp: j.TCP, opts: j.Opts, op: j.Op, qd: j.Qd, class: j.Class, extra: j.Extra, client: j.Client, via: j.Via, cas: j.Cas, bits: j.Bits, pre: j.Pre}
}

func (c qcase) MarshalJSON() ([]byte, error) {
	return json.Marshal(qcaseJSON{c.name, c.typ, c.ver, c.size, c.do, c.tcp, c.opts, c.op, c.qd, c.class, c.extra, c.client, c.via, c.cas, c.bits, c.pre})
}
