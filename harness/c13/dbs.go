package main

import (
	"fmt"
	"strings"
)

// The databases of the quantifier: a normal zone, a root zone, a root
// DELEGATION (NS only at the root), an empty file, and a zone with very large
// RRsets (answers larger than 512, 1232, 4096 and 65535 bytes).

type database struct {
	name string
	text string
}

const (
	label63 = "aaaaaaaaaaaaaaaaaaaaaaaaaaaaaaaaaaaaaaaaaaaaaaaaaaaaaaaaaaaaaaa" // 63 bytes
	label49 = "bbbbbbbbbbbbbbbbbbbbbbbbbbbbbbbbbbbbbbbbbbbbbbbbb"               // 49 bytes
)

// name255 has wire length 255: 50 + 3*64 + 13 (example.com.)
var name255 = label49 + "." + label63 + "." + label63 + "." + label63 + ".example.com"

func zoneSkeleton() string {
	var b strings.Builder
	// resolver map m1 and client-subnet map c1, both with defaults, both attached to example.com
	b.WriteString("%\\000\\001,0.0.0.0/0,m1\n%\\000\\001,::/0,m1\n%aa,10.1.0.0/16,m1\n")
	b.WriteString("%\\000\\001,0.0.0.0/0,c1\n%\\000\\001,::/0,c1\n%bb,192.0.2.0/24,c1\n%bb,2001:db8::/32,c1\n")
	b.WriteString("Mexample.com,m1\n8example.com,c1\n")
	b.WriteString("Zexample.com,ns1.example.com,hostmaster.example.com,1,7200,1800,604800,120,120,,\n")
	b.WriteString("&example.com,,ns1.example.com,3600,,\n&example.com,,ns2.example.com,3600,,\n")
	b.WriteString("=ns1.example.com,192.0.2.53,3600,,\n=ns1.example.com,2001:db8::53,3600,,\n=ns2.example.com,192.0.2.54,3600,,\n")
	return b.String()
}

func normalText() string {
	var b strings.Builder
	b.WriteString(zoneSkeleton())
	b.WriteString("+www.example.com,192.0.2.1,300,,\n")
	b.WriteString("+www.example.com,192.0.2.2,300,,bb\n") // visible to ECS clients of 192.0.2.0/24 only
	b.WriteString("+www.example.com,192.0.2.3,300,,aa\n") // visible to resolvers in 10.1/16 only
	b.WriteString("+www.example.com,2001:db8::1,300,,\n")
	b.WriteString("@example.com,,mail.example.com,10,300,,\n=mail.example.com,192.0.2.25,300,,\n")
	b.WriteString("'example.com,v=spf1 -all,300,,\n")
	b.WriteString("&deleg.example.com,,ns.deleg.example.com,3600,,\n=ns.deleg.example.com,192.0.2.99,3600,,\n")
	b.WriteString("+*.w.example.com,192.0.2.7,300,,\n'*.w.example.com,wild,300,,\n")
	b.WriteString("C*.c.example.com,www.example.com,300,,\n")
	b.WriteString("+" + label63 + ".example.com,192.0.2.63,300,,\n")
	b.WriteString("+" + name255 + ",192.0.2.255,300,,\n'" + name255 + ",longest,300,,\n")
	b.WriteString("+a\\000b.example.com,192.0.2.10,300,,\n")
	b.WriteString("+\\000.example.com,192.0.2.11,300,,\n")
	return b.String()
}

func rootText() string {
	var b strings.Builder
	b.WriteString("%\\000\\001,0.0.0.0/0,m1\n%\\000\\001,::/0,m1\n%aa,10.1.0.0/16,m1\nM,m1\n")
	b.WriteString("%\\000\\001,0.0.0.0/0,c1\n%\\000\\001,::/0,c1\n%bb,192.0.2.0/24,c1\n8,c1\n")
	b.WriteString("Z,a.root-servers.net,nstld.verisign-grs.com,1,1800,900,604800,86400,86400,,\n")
	b.WriteString("&,,a.root-servers.net,3600,,\n&,,b.root-servers.net,3600,,\n")
	b.WriteString("=a.root-servers.net,198.41.0.4,3600,,\n=a.root-servers.net,2001:503:ba3e::2:30,3600,,\n=b.root-servers.net,199.9.14.201,3600,,\n")
	b.WriteString("&com,,a.gtld-servers.net,3600,,\n=a.gtld-servers.net,192.5.6.30,3600,,\n")
	b.WriteString("+localhost,127.0.0.1,300,,\n',roottxt,300,,\n")
	return b.String()
}

func rootDelegText() string {
	// NS only at the root: the server knows the root's name servers but is not
	// authoritative for it.
	return "&,,a.root-servers.net,3600,,\n=a.root-servers.net,198.41.0.4,3600,,\n"
}

func bigText(hugeTXT int) string {
	var b strings.Builder
	b.WriteString(zoneSkeleton())
	for i := 0; i < 60; i++ {
		fmt.Fprintf(&b, "+big.example.com,10.0.%d.%d,300,,\n", i/16, i%16+1)
		fmt.Fprintf(&b, "+big.example.com,2001:db8:b::%x,300,,\n", i+1)
	}
	for i := 0; i < 4; i++ { // 4 x 500 bytes of TXT
		fmt.Fprintf(&b, "'big.example.com,%s,300,,\n", strings.Repeat(string(rune('p'+i)), 500))
	}
	// > 65535 bytes of TXT at one name (TCP truncation)
	for i := 0; i < hugeTXT; i++ {
		fmt.Fprintf(&b, "'huge.example.com,%03d%s,300,,\n", i, strings.Repeat("h", 247))
	}
	// many NS with glue: large authority + additional sections
	for i := 0; i < 20; i++ {
		fmt.Fprintf(&b, "&manyns.example.com,,ns%02d.manyns.example.com,3600,,\n=ns%02d.manyns.example.com,192.0.3.%d,3600,,\n=ns%02d.manyns.example.com,2001:db8:c::%x,3600,,\n", i, i, i+1, i, i+1)
	}
	return b.String()
}

func databases() []database {
	return []database{
		{"normal", normalText()},
		{"rootzone", rootText()},
		{"rootdeleg", rootDelegText()},
		{"empty", ""},
		{"big", bigText(280)},
	}
}
