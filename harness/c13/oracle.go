package main

import (
	"bytes"
	"context"
	"fmt"
	"sort"
	"strings"
	"sync"

	"github.com/coredns/coredns/plugin"
	"github.com/facebookincubator/dns/dnsrocks/dnsserver"
	srvstats "github.com/facebookincubator/dns/dnsrocks/dnsserver/stats"
	"github.com/facebookincubator/dns/dnsrocks/fbserver"
	"github.com/miekg/dns"

	"verifharness/dnsfix"
	"verifharness/vlib"
)

// maxAns is the per-query address limit installed in the context (what
// fbserver's maxAnswer plugin does): larger than any RRset of the fixtures, so
// that no answer depends on the weighted random choice.
const maxAns = 200

// env is one database opened on one backend.
type env struct {
	db      string
	backend dnsfix.Backend
	h       *dnsfix.Handler
	mux     dns.Handler // fbserver's serveMux in front of the same handler
	path    string      // the compiled database (for the cache-enabled handlers)

	mu   sync.Mutex
	free []*cachedHandler // cache-enabled handlers over the same files, one per concurrent work unit
	all  []*cachedHandler
}

// cachedHandler is a second real handler over the same database with the response
// cache enabled; its statistics sink counts cache hits so that the harness knows
// whether the second query of a history was really served from the cache.
type cachedHandler struct {
	h    *dnsfix.Handler
	hits hitCounter
}

type hitCounter struct {
	srvstats.DummyStats
	hit, miss int64
}

func (s *hitCounter) IncrementCounter(key string) {
	switch key {
	case "DNS_cache.hit":
		s.hit++
	case "DNS_cache.missed":
		s.miss++
	}
}

// acquireCached hands out a cache-enabled handler for exclusive use by one work unit.
func (e *env) acquireCached() *cachedHandler {
	e.mu.Lock()
	if n := len(e.free); n > 0 {
		ch := e.free[n-1]
		e.free = e.free[:n-1]
		e.mu.Unlock()
		return ch
	}
	e.mu.Unlock()
	ch := &cachedHandler{}
	h, err := dnsfix.OpenHandler(e.backend, e.path, dnsfix.HandlerOpts{Cache: dnsserver.CacheConfig{Enabled: true, LRUSize: 64}, Stats: &ch.hits})
	if err != nil {
		vlib.Infra("open %s on %s with the cache enabled: %v", e.db, e.backend, err)
	}
	ch.h = h
	e.mu.Lock()
	e.all = append(e.all, ch)
	e.mu.Unlock()
	return ch
}

func (e *env) releaseCached(ch *cachedHandler) {
	e.mu.Lock()
	e.free = append(e.free, ch)
	e.mu.Unlock()
}

func (e *env) close() {
	for _, ch := range e.all {
		ch.h.Close()
	}
	e.h.Close()
}

// withMaxAns is the stand-in for fbserver's maxAnswer plugin between the mux and the handler.
type withMaxAns struct{ h *dnsserver.FBDNSDB }

func (p withMaxAns) ServeDNS(ctx context.Context, w dns.ResponseWriter, r *dns.Msg) (int, error) {
	return p.h.ServeDNS(dnsserver.WithMaxAnswer(ctx, maxAns), w, r)
}
func (p withMaxAns) Name() string { return "maxAnswer" }

var _ plugin.Handler = withMaxAns{}

func newEnv(db string, b dnsfix.Backend, h *dnsfix.Handler, path string) *env {
	return &env{db: db, backend: b, h: h, path: path, mux: fbserver.NewServeMuxForVerif(withMaxAns{h.H})}
}

// serve hands one parsed message to the real code and records what happened.
func (e *env) serve(req *dns.Msg, c qcase) (res dnsfix.Result) {
	if c.via == 0 {
		return e.h.Serve(req, clients[c.client], c.tcp == 1, maxAns)
	}
	w := dnsfix.NewWriter(clients[c.client], c.tcp == 1)
	defer func() {
		if p := recover(); p != nil {
			res.Panicked = p
			res.Msgs = w.Msgs
		}
	}()
	e.mux.ServeDNS(w, req)
	return dnsfix.Result{Msgs: w.Msgs}
}

// finding is one way in which a case disagrees with the statement.
type finding struct{ kind, detail string }

// observation is what the oracle looked at (for statistics and samples).
type observation struct {
	reachedHandler bool   // the message survived pack + unpack
	replied        bool   // one message was written
	rcode          int    // of the reply as parsed back from its wire form
	wireLen        int    // packed length of the reply
	truncated      bool   // TC
	nontrivial     bool   // a reply other than REFUSED
	positive       bool   // reply with answer records
	tcOversize     bool   // TC set and still larger than the limit (allowed by the statement; counted)
	canon          string // canonical text of the outcome (only filled when wanted)
	twinRan        int    // metamorphic comparisons made
	firstOfMany    bool   // multi-question query, reply echoes (and answers) the first question only
	cacheHit       bool   // two-query history: the second query was served from the response cache
	firstCached    bool   // two-query history: the first query left an entry in the cache
}

// limitFor is the number of bytes the client can take.
func limitFor(ref *dns.Msg, tcp bool) int {
	if tcp {
		return dns.MaxMsgSize
	}
	if o := ref.IsEdns0(); o != nil {
		if s := int(o.UDPSize()); s > dns.MinMsgSize { // RFC 6891 6.2.3: values below 512 mean 512
			return s
		}
	}
	return dns.MinMsgSize
}

func sameQuestion(a, b dns.Question) bool {
	return a.Name == b.Name && a.Qtype == b.Qtype && a.Qclass == b.Qclass
}

// check applies the statement to the outcome of one call. ref is the query as
// the server parsed it (an untouched copy). It returns the findings, the parsed
// wire form of the reply (nil if none) and fills obs.
func check(ref *dns.Msg, c qcase, res dnsfix.Result, obs *observation) (fs []finding, back *dns.Msg, wire []byte) {
	add := func(kind, f string, a ...interface{}) { fs = append(fs, finding{kind, fmt.Sprintf(f, a...)}) }
	if res.Panicked != nil {
		add("panic", "ServeDNS panicked: %v", res.Panicked)
		return
	}
	ver := versions[c.ver]
	if len(res.Msgs) > 1 {
		add("multi-write", "%d messages written for one query", len(res.Msgs))
	}
	if len(res.Msgs) == 0 {
		if ver.edns && ver.v != 0 && len(ref.Question) > 0 {
			add("badvers/no-reply", "EDNS version %d query got no reply (rcode returned %d, err %v)", ver.v, res.Rcode, res.Err)
		}
		return
	}
	m := res.Msgs[0]
	obs.replied = true
	var err error
	wire, err = m.Pack()
	if err != nil {
		add("pack-fails", "reply does not pack: %v\n%v", err, m)
		return
	}
	back = new(dns.Msg)
	if err := back.Unpack(wire); err != nil {
		add("reply-unparsable", "packed reply does not parse: %v (%x)", err, wire)
		back = nil
		return
	}
	obs.rcode, obs.wireLen, obs.truncated = back.Rcode, len(wire), back.Truncated
	obs.nontrivial = back.Rcode != dns.RcodeRefused
	obs.positive = len(back.Answer) > 0
	if back.Id != ref.Id {
		add("id", "reply id %d, query id %d", back.Id, ref.Id)
	}
	if !back.Response {
		add("qr", "QR bit not set in the reply")
	}
	// question section
	if len(back.Question) != len(ref.Question) {
		prefix := len(back.Question) < len(ref.Question)
		for i := range back.Question {
			if i < len(ref.Question) && !sameQuestion(back.Question[i], ref.Question[i]) {
				prefix = false
			}
		}
		switch {
		case prefix && len(back.Question) == 1 && len(ref.Question) > 1:
			// Documented baseline of the repository (dnsserver/handler_test.go, TestDNSDBMultipleQuestions:
			// "only handle the first question ... the answer contains only the first question in the
			// question section"): for a multi-question query "the query's question" is its first one.
			obs.firstOfMany = true
		case len(back.Question) == 0:
			add("question-missing/rcode="+rcodeName(back.Rcode), "reply has no question section; query had %v", ref.Question)
		case prefix:
			add(fmt.Sprintf("question-partial/%d-of-%d", len(back.Question), len(ref.Question)), "reply echoes %v of the query's %v", back.Question, ref.Question)
		default:
			add("question-differs", "reply question %v, query question %v", back.Question, ref.Question)
		}
	} else {
		for i := range back.Question {
			if !sameQuestion(back.Question[i], ref.Question[i]) {
				add("question-differs", "reply question %v, query question %v", back.Question, ref.Question)
				break
			}
		}
	}
	// size
	limit := limitFor(ref, c.tcp == 1)
	if len(wire) > limit {
		switch {
		case c.tcp == 1:
			add("size/tcp", "reply of %d bytes cannot be framed on TCP (TC=%v)", len(wire), back.Truncated)
		case !back.Truncated:
			add("size/udp", "reply of %d bytes exceeds the %d bytes the client can take and TC is not set", len(wire), limit)
		default:
			// TC is set, yet the datagram is larger than the client can take: "truncated" that does
			// not fit. Kept apart from size/udp because it rests on reading "truncated" as "cut to size".
			obs.tcOversize = true
			add("size/udp-over-limit-despite-tc", "reply of %d bytes exceeds the %d bytes the client can take although TC is set", len(wire), limit)
		}
	}
	// EDNS version
	// (a message without a question is answered by the mux before any EDNS processing; which of
	// the two errors takes precedence is not something the statement decides, so it is not judged)
	if ver.edns && ver.v != 0 && len(ref.Question) > 0 && back.Rcode != dns.RcodeBadVers {
		add("badvers/rcode="+rcodeName(back.Rcode), "EDNS version %d query answered with %s, not BADVERS", ver.v, rcodeName(back.Rcode))
	}
	return
}

func rcodeName(rc int) string {
	if rc == dns.RcodeBadVers { // 16 is BADVERS in the OPT sense (miekg's table says BADSIG, the TSIG meaning)
		return "BADVERS"
	}
	if s, ok := dns.RcodeToString[rc]; ok {
		return s
	}
	return fmt.Sprintf("RCODE%d", rc)
}

// canonOutcome renders the outcome of a call for the metamorphic comparison:
// the reply as parsed back from the wire, sections sorted (the handler shuffles address records).
func canonOutcome(res dnsfix.Result, back *dns.Msg) string {
	if res.Panicked != nil {
		return fmt.Sprintf("<PANIC %v>", res.Panicked)
	}
	if len(res.Msgs) == 0 {
		return "<no reply>"
	}
	if back == nil {
		return "<unpackable reply>"
	}
	head := fmt.Sprintf("n=%d id=%d op=%d rd=%v ", len(res.Msgs), back.Id, back.Opcode, back.RecursionDesired)
	if !back.Truncated {
		return head + dnsfix.Canon(back)
	}
	// truncated: WHICH of the (shuffled) records survived is a matter of chance; how many is not
	c := back.Copy()
	extra := 0
	var opt []dns.RR
	for _, rr := range c.Extra {
		if rr.Header().Rrtype == dns.TypeOPT {
			opt = append(opt, rr)
		} else {
			extra++
		}
	}
	counts := fmt.Sprintf("TC an=%d ns=%d ar=%d ", len(c.Answer), len(c.Ns), extra)
	c.Answer, c.Ns, c.Extra = nil, nil, opt
	return head + counts + dnsfix.Canon(c)
}

// eval runs one case (and its twin with an added unknown option) against the real
// handler and returns every disagreement with the statement.
func (e *env) eval(c qcase, twins []int, obs *observation, calls *int64) []finding {
	if c.pre > 0 {
		return e.evalPair(c, obs, calls)
	}
	wire, err := c.wire(0)
	if err != nil {
		return nil // the client library cannot even produce it: not a wire-valid message
	}
	req := new(dns.Msg)
	if err := req.Unpack(wire); err != nil {
		return nil // miekg's server would reject it before any handler runs
	}
	obs.reachedHandler = true
	ref := req.Copy()
	*calls++
	res := e.serve(req, c)
	fs, back, rwire := check(ref, c, res, obs)
	if !versions[c.ver].edns {
		return fs
	}
	var base string
	for _, t := range twins {
		tw, err := c.wire(t)
		if err != nil {
			continue
		}
		treq := new(dns.Msg)
		if err := treq.Unpack(tw); err != nil {
			continue
		}
		obs.twinRan++
		tref := treq.Copy()
		*calls++
		tres := e.serve(treq, c)
		var tobs observation
		tfs, tback, twire := check(tref, c, tres, &tobs)
		same := res.Panicked == nil && tres.Panicked == nil && len(res.Msgs) == len(tres.Msgs) && back != nil && tback != nil && bytes.Equal(rwire, twire)
		if !same { // bytes differ (or something went wrong): compare order-independently
			if base == "" {
				base = canonOutcome(res, back)
			}
			if got := canonOutcome(tres, tback); got != base {
				fs = append(fs, finding{"unknown-option-changes-reply", fmt.Sprintf("with an unknown option (code 65002) %s the option list:\n%s\nwithout it:\n%s", [...]string{"", "before", "after"}[t], got, base)})
			}
		}
		// anything else wrong with the twin's own reply is reported as a twin finding
		for _, f := range tfs {
			known := false
			for _, g := range fs {
				if g.kind == f.kind {
					known = true
				}
			}
			if !known {
				fs = append(fs, finding{"with-unknown-option/" + f.kind, f.detail})
			}
		}
	}
	return fs
}

// parse packs the case and parses it back the way dns.Server would (nil: not a wire-valid message).
func (c qcase) parse() *dns.Msg {
	w, err := c.wire(0)
	if err != nil {
		return nil
	}
	m := new(dns.Msg)
	if m.Unpack(w) != nil {
		return nil
	}
	return m
}

// firstID is the message id of the query preceding c: never c's own id.
func (c qcase) firstID() uint16 { return c.queryID() ^ 0xa5a5 }

// evalPair runs a two-query history on a handler with the response cache enabled
// and EMPTY: the preceding query c.first() (same name up to spelling, type, class
// and client address as c, so the same cache key; different message id), then c.
// Both replies are judged by the statement, each against ITS OWN query. A
// disagreement is reported here only if the cache has to do with it:
//
//	after-cached-query/<kind>  c's reply is wrong after the preceding query but not when c is asked on an empty cache
//	cache-enabled/<kind>       c's reply is wrong on an empty cache, cache enabled, but not with the cache disabled
//	cache-enabled-first/<kind> the same for the preceding query
//
// (anything that also happens with the cache disabled belongs to the single-query part).
func (e *env) evalPair(c qcase, obs *observation, calls *int64) []finding {
	q1 := c.first()
	req1, req2 := q1.parse(), c.parse()
	if req1 == nil || req2 == nil {
		return nil
	}
	req1.Id = c.firstID()
	obs.reachedHandler = true
	ch := e.acquireCached()
	defer e.releaseCached(ch)
	serve := func(h *dnsfix.Handler, req *dns.Msg, x qcase) dnsfix.Result {
		*calls++
		return h.Serve(req, clients[x.client], x.tcp == 1, maxAns)
	}
	ch.h.H.PurgeCacheForVerif()
	ref1 := req1.Copy()
	res1 := serve(ch.h, req1, q1)
	var o1 observation
	fs1, _, _ := check(ref1, q1, res1, &o1)
	obs.firstCached = ch.h.H.CacheLenForVerif() > 0
	hits := ch.hits.hit
	ref2 := req2.Copy()
	res2 := serve(ch.h, req2, c)
	fs2, back2, _ := check(ref2, c, res2, obs)
	obs.cacheHit = ch.hits.hit > hits
	obs.nontrivial = obs.replied && obs.cacheHit
	var fs []finding
	if len(fs2) > 0 {
		ch.h.H.PurgeCacheForVerif()
		var oa, on observation
		fsA, _, _ := check(ref2, c, serve(ch.h, c.parse(), c), &oa)
		var fsN []finding
		ranN := false
		for _, f := range fs2 {
			if _, ok := hasKind(fsA, f.kind); !ok {
				fs = append(fs, finding{"after-cached-query/" + f.kind, fmt.Sprintf("cache enabled and empty; first query (id %d): %s\n  %v\nthen the query of the case (id %d) - served from the cache: %v:\n%s\nreply:\n%v\n(asked alone on an empty cache the same query is answered without this disagreement)",
					ref1.Id, q1, ref1.Question, ref2.Id, obs.cacheHit, f.detail, back2)})
				continue
			}
			if !ranN {
				fsN, _, _ = check(ref2, c, serve(e.h, c.parse(), c), &on)
				ranN = true
			}
			if _, ok := hasKind(fsN, f.kind); !ok {
				fs = append(fs, finding{"cache-enabled/" + f.kind, "cache enabled and empty (with the cache disabled the same query is answered without this disagreement): " + f.detail})
			}
		}
	}
	if len(fs1) > 0 {
		var on observation
		r1 := q1.parse()
		r1.Id = ref1.Id
		fsN, _, _ := check(ref1, q1, serve(e.h, r1, q1), &on)
		for _, f := range fs1 {
			if _, ok := hasKind(fsN, f.kind); !ok {
				fs = append(fs, finding{"cache-enabled-first/" + f.kind, fmt.Sprintf("cache enabled and empty, query %s (with the cache disabled it is answered without this disagreement): %s", q1, f.detail)})
			}
		}
	}
	return fs
}

func hasKind(fs []finding, kind string) (finding, bool) {
	for _, f := range fs {
		if f.kind == kind {
			return f, true
		}
	}
	return finding{}, false
}

// dims lists the dimensions in the order in which a failing case is simplified.
type dim struct {
	name string
	n    int
	get  func(*qcase) *uint8
}

var dims = []dim{
	{"pre", len(firsts), func(c *qcase) *uint8 { return &c.pre }},
	{"via", 2, func(c *qcase) *uint8 { return &c.via }},
	{"tcp", 2, func(c *qcase) *uint8 { return &c.tcp }},
	{"client", len(clients), func(c *qcase) *uint8 { return &c.client }},
	{"extra", len(extras), func(c *qcase) *uint8 { return &c.extra }},
	{"opts", len(optLists), func(c *qcase) *uint8 { return &c.opts }},
	{"do", 2, func(c *qcase) *uint8 { return &c.do }},
	{"size", len(udpSizes), func(c *qcase) *uint8 { return &c.size }},
	{"ver", len(versions), func(c *qcase) *uint8 { return &c.ver }},
	{"op", len(opcodes), func(c *qcase) *uint8 { return &c.op }},
	{"qd", len(qdcounts), func(c *qcase) *uint8 { return &c.qd }},
	{"class", len(classes), func(c *qcase) *uint8 { return &c.class }},
	{"bits", len(flagSets), func(c *qcase) *uint8 { return &c.bits }},
	{"cas", len(spellings), func(c *qcase) *uint8 { return &c.cas }},
	{"type", len(types), func(c *qcase) *uint8 { return &c.typ }},
	{"name", len(names), func(c *qcase) *uint8 { return &c.name }},
}

// minimise simplifies a failing case dimension by dimension (towards index 0)
// while the same kind of disagreement persists; the result is a local minimum:
// no single dimension can be made simpler. It also reports which dimensions kept
// a non-default value (the ones the failure depends on).
func (e *env) minimise(c qcase, kind string, twins []int, calls *int64) (qcase, finding) {
	var last finding
	fails := func(x qcase) bool {
		x = x.normalised()
		if !x.valid() {
			return false
		}
		var o observation
		f, ok := hasKind(e.eval(x, twins, &o, calls), kind)
		if ok {
			last = f
		}
		return ok
	}
	fails(c)
	for changed := true; changed; {
		changed = false
		for _, d := range dims {
			cur := *d.get(&c)
			for v := uint8(0); v < cur; v++ {
				x := c
				*d.get(&x) = v
				if fails(x) {
					c = x.normalised()
					changed = true
					break
				}
			}
		}
	}
	fails(c)
	return c, last
}

// memo attributes failing cases to already minimised ones inside one work unit:
// a case that agrees with an earlier failing case on all the dimensions the
// earlier minimal form depends on is the same finding.
type memo struct {
	entries map[string][]memoEntry // by kind
}

type memoEntry struct {
	mask uint32 // dimensions on which the minimal form is not the default
	vals string // the original case's values on those dimensions
}

func project(c qcase, mask uint32) string {
	var sb strings.Builder
	for i, d := range dims {
		if mask&(1<<uint(i)) != 0 {
			fmt.Fprintf(&sb, "%d.", *d.get(&c))
		}
	}
	return sb.String()
}

func (m *memo) covered(kind string, c qcase) bool {
	for _, en := range m.entries[kind] {
		if project(c, en.mask) == en.vals {
			return true
		}
	}
	return false
}

func (m *memo) record(kind string, orig, min qcase) {
	var mask uint32
	for i, d := range dims {
		if *d.get(&min) != 0 {
			mask |= 1 << uint(i)
		}
	}
	if m.entries == nil {
		m.entries = map[string][]memoEntry{}
	}
	m.entries[kind] = append(m.entries[kind], memoEntry{mask, project(orig, mask)})
}

func sortedKeys(m map[string]int64) []string {
	k := make([]string, 0, len(m))
	for s := range m {
		k = append(k, s)
	}
	sort.Strings(k)
	return k
}
