package main

// Part 2, additional file families (same oracle as preproc.go: the RocksDB / the parsed record stream compiled
// from the file equals the one compiled from the preprocessed file; a file that does not compile is skipped).
//
// bulk:    files that cross the fixed sizes of the preprocessor: one map with 99, exactly 100, 101, 123 and 243
//          range points (SubnetRanger.OpenScanner hands the '!' lines over in chunks of 100), three maps of 123
//          points each (chunk channel of capacity = number of maps), IPv6 subnets, and pass-through output well
//          beyond PreprocReader's 512-byte buffer and io.Copy's 32 KB buffer. With the Go scheduler free-running
//          an overwritten chunk shows up often but not always: the deciding step for that is part 3 (c09_sched).
// lexical: what a LINE is. The compiler's parser drops leading spaces and ignores lines shorter than 2 bytes and
//          lines starting with '#'; the preprocessor has its own copy of these rules and additionally decodes
//          '%' and 'Z' lines itself. 17 base lines (SOA with / without serial, subnet with / without map, ordinary
//          lines, a range-point line, every 1-byte line the preprocessor distinguishes, 2-byte lines, the empty
//          line) x 4 prefixes x 6 suffixes of white space / carriage returns / an empty trailing field, each
//          alone in a file, after a subnet line, and last in a file without a final newline.

import (
	"fmt"
	"sort"
	"strings"
	"sync/atomic"

	"verifharness/dnsfix"
	"verifharness/vlib"
)

type xfile struct {
	family  string // "bulk" or "lex"
	key     string
	text    []byte
	db      bool     // also compared on a real RocksDB
	simpler []string // keys of the one-step simpler files (minimal-case attribution)
	why     string
}

type xdeco struct{ name, text string }

var xBases = []xdeco{
	{"Z42", "Zexample.com,ns.example.com,adm.example.com,42"},
	{"Zempty", "Zexample.com,ns.example.com,adm.example.com,"},
	{"Zfull", "Zsub.example.com,ns.example.com,adm.example.com,77" + soaTail + "aa"},
	{"net", "%aa,10.0.0.0/8,m1"},
	{"netnomap", "%aa,10.0.0.0/8"},
	{"a", "+www.example.com,192.0.2.1,300"},
	{"txt", "'t.example.com,hello"},
	{"rp", "!m1,10.0.0.0,8,aa"},
	{"Z1", "Z"},
	{"net1", "%"},
	{"a1", "+"},
	{"hash1", "#"},
	{"rp1", "!"},
	{"Z2", "Za"},
	{"net2", "%a"},
	{"a2", "+a"},
	{"empty", ""},
}

var xPrefixes = []xdeco{{"", ""}, {"SP", " "}, {"SPSP", "  "}, {"TAB", "\t"}}
var xSuffixes = []xdeco{{"", ""}, {"SP", " "}, {"TAB", "\t"}, {"CR", "\r"}, {"CRCR", "\r\r"}, {"COMMA", ","}}
var xContexts = []string{"alone", "after-net", "eof"}

// base lines that are also compared on a real RocksDB (line alone in the file, no prefix, every suffix)
var xDBBases = map[string]bool{"Z42": true, "net": true, "Z1": true}

func xKey(b, p, s, c int) string {
	return "lex:" + xBases[b].name + "~" + xPrefixes[p].name + "~" + xSuffixes[s].name + "~" + xContexts[c]
}

func xSimplerDeco(tab []xdeco, i int) []int {
	var out []int
	t := tab[i].text
	for d := range t {
		sub := t[:d] + t[d+1:]
		for j := range tab {
			if j != i && tab[j].text == sub {
				out = append(out, j)
			}
		}
	}
	return out
}

func lexicalFiles() []xfile {
	var out []xfile
	for b := range xBases {
		for p := range xPrefixes {
			for s := range xSuffixes {
				line := xPrefixes[p].text + xBases[b].text + xSuffixes[s].text
				for c, ctx := range xContexts {
					var text string
					switch ctx {
					case "alone":
						text = line + "\n"
					case "after-net":
						text = "%bb,11.0.0.0/8,m1\n" + line + "\n"
					case "eof":
						text = line
					}
					f := xfile{family: "lex", key: xKey(b, p, s, c), text: []byte(text), db: c == 0 && p == 0 && xDBBases[xBases[b].name]}
					for _, q := range xSimplerDeco(xPrefixes, p) {
						f.simpler = append(f.simpler, xKey(b, q, s, c))
					}
					for _, q := range xSimplerDeco(xSuffixes, s) {
						f.simpler = append(f.simpler, xKey(b, p, q, c))
					}
					if c != 0 {
						f.simpler = append(f.simpler, xKey(b, p, s, 0))
					}
					out = append(out, f)
				}
			}
		}
	}
	return out
}

func xSubnets(m string, o, n int, v6 bool) string {
	var sb strings.Builder
	for i := 0; i < n; i++ {
		lo := []string{"aa", "bb", "cc"}[i%3]
		if v6 {
			fmt.Fprintf(&sb, "%%%s,2001:db8:%x::/48,%s\n", lo, 2*i+o, m)
		} else {
			fmt.Fprintf(&sb, "%%%s,10.%d.%d.0/24,%s\n", lo, o, 2*i, m)
		}
	}
	return sb.String()
}

func xOrdinary(from, n int) string {
	var sb strings.Builder
	for i := from; i < from+n; i++ {
		fmt.Fprintf(&sb, "+h%04d.example.com,192.0.%d.%d,300\n", i, (i>>8)&255, i&255)
	}
	return sb.String()
}

func bulkFiles() []xfile {
	z := "Zexample.com,ns.example.com,adm.example.com," + soaTail + "\n"
	mk := func(key, why, text string) xfile {
		return xfile{family: "bulk", key: "bulk:" + key, why: why, text: []byte(text), db: true}
	}
	return []xfile{
		mk("one-map-48", "one map, 99 range points: one chunk that is not full", xSubnets("m1", 0, 48, false)),
		mk("one-map-48+last", "one map, exactly 100 range points: one full chunk", xSubnets("m1", 0, 48, false)+"%cc,255.255.255.0/24,m1\n"),
		mk("one-map-49", "one map, 101 range points: a full chunk and one more line", xSubnets("m1", 0, 49, false)),
		mk("one-map-60", "one map, 123 range points, between SOA and ordinary lines", z+xSubnets("m1", 0, 60, false)+xOrdinary(0, 2)),
		mk("one-map-120", "one map, 243 range points: three chunks", xSubnets("m1", 0, 120, false)),
		mk("one-map-60-v6", "one map, 60 IPv6 subnets", xSubnets("m1", 0, 60, true)),
		mk("three-maps-60", "three maps of 123 range points each", xSubnets("m1", 0, 60, false)+xSubnets("m2", 1, 60, false)+xSubnets("m3", 2, 60, false)),
		mk("five-maps-mixed", "five maps of 2..120 subnets, IPv4 and IPv6", xSubnets("m1", 0, 2, false)+xSubnets("m2", 1, 120, false)+xSubnets("m3", 2, 49, true)+xSubnets("m4", 3, 50, false)+xSubnets("m5", 4, 7, true)),
		mk("pass-through-600B", "pass-through output just beyond the reader's 512-byte buffer, then a map of 60 subnets", z+xOrdinary(0, 14)+xSubnets("m1", 0, 60, false)),
		mk("pass-through-40KB", "1200 ordinary lines and two SOA lines (40 KB: beyond io.Copy's 32 KB buffer) around a map of 120 subnets", z+xOrdinary(0, 600)+xSubnets("m1", 0, 120, false)+"Zexample.org,ns.example.org,adm.example.org,42\n"+xOrdinary(600, 600)),
	}
}

type xres struct{ db, mem [2]presult }

type xStats struct {
	lexFiles, bulkFiles, dbFiles, dbPairs, memPairs int64
	skipped, failing, changed                     int64
	maxPointsOneMap, bulkOver100                  int64
	maxOutputBytes                                int64
}

// xRun is the evaluation of the additional families: started before part 1 (the database comparisons are
// latency-bound), results stored by file index, reported by finish.
type xRun struct {
	st    *xStats
	files []xfile
	res   []xres
	pres  [][]byte
	noDB  bool
	done  chan struct{}
}

func startExtras(dir string, noDB bool) *xRun {
	x := &xRun{st: &xStats{}, files: append(bulkFiles(), lexicalFiles()...), noDB: noDB, done: make(chan struct{})}
	x.res = make([]xres, len(x.files))
	x.pres = make([][]byte, len(x.files))
	go func() {
		defer close(x.done)
		vlib.ParallelFor(len(x.files), func(i int) {
			f := x.files[i]
			pre, perr := preprocess(f.text)
			x.pres[i] = pre
			for bi := range pbackends {
				x.res[i].mem[bi] = compareMem(bi == 1, f.text, pre, perr)
				atomic.AddInt64(&x.st.memPairs, 1)
				if f.db && !noDB {
					x.res[i].db[bi] = compareDB(dir, pbackends[bi], f.text, pre, perr)
					atomic.AddInt64(&x.st.dbPairs, 1)
				}
			}
		})
	}()
	return x
}

// finish reports the minimal failing files of the additional families.
func (x *xRun) finish(r *vlib.Run) *xStats {
	<-x.done
	st, files, res, pres, noDB := x.st, x.files, x.res, x.pres, x.noDB
	index := map[string]int{}
	for i, f := range files {
		index[f.key] = i
	}
	type agg struct {
		backends map[string]bool
		detail   string
		f        xfile
		pre      string
	}
	found := map[string]*agg{}
	for i, f := range files {
		if f.family == "bulk" {
			st.bulkFiles++
			perMap := map[string]int64{}
			for _, l := range strings.Split(string(pres[i]), "\n") {
				if strings.HasPrefix(l, "!") {
					perMap[strings.SplitN(l, ",", 2)[0]]++
				}
			}
			over := false
			for _, n := range perMap {
				if n > st.maxPointsOneMap {
					st.maxPointsOneMap = n
				}
				if n > 100 {
					over = true
				}
			}
			if over {
				st.bulkOver100++
			}
			if int64(len(pres[i])) > st.maxOutputBytes {
				st.maxOutputBytes = int64(len(pres[i]))
			}
			r.Sample(map[string]interface{}{"part": "preprocess", "family": "bulk", "file": f.key, "why": f.why, "range_points_per_map": perMap, "output_bytes": len(pres[i])})
		} else {
			st.lexFiles++
			r.Sample(map[string]interface{}{"part": "preprocess", "family": "lexical", "file": f.key, "text": string(f.text)})
		}
		if f.db && !noDB {
			st.dbFiles++
		}
		if string(pres[i]) != string(withoutComments(f.text)) {
			st.changed++
		}
		for _, mode := range []string{"db", "mem"} {
			if mode == "db" && (!f.db || noDB) {
				continue
			}
			for bi, b := range pbackends {
				get := func(j int) presult {
					if mode == "db" {
						return res[j].db[bi]
					}
					return res[j].mem[bi]
				}
				pr := get(i)
				if pr.kind == "skip" {
					st.skipped++
					continue
				}
				if pr.kind == "" {
					continue
				}
				st.failing++
				minimal := true
				for _, sk := range f.simpler {
					j := index[sk]
					if mode == "db" && (!files[j].db || noDB) {
						continue
					}
					if get(j).kind == pr.kind {
						minimal = false
						break
					}
				}
				if !minimal {
					continue
				}
				key := "preproc/" + pr.kind + "/" + f.key
				a := found[key]
				if a == nil {
					a = &agg{backends: map[string]bool{}, detail: pr.detail, f: f, pre: string(pres[i])}
					found[key] = a
				}
				a.backends[b.String()] = true
			}
		}
	}
	var order []string
	for k := range found {
		order = append(order, k)
	}
	sort.Strings(order)
	for _, key := range order {
		a := found[key]
		var bl []string
		for _, b := range pbackends {
			if a.backends[b.String()] {
				bl = append(bl, b.String())
			}
		}
		bs := strings.Join(bl, "+")
		if len(bl) == len(pbackends) {
			bs = "all"
		}
		file, pre := a.f.text, a.pre
		show := func(s string) string {
			if len(s) > 1500 {
				return indent(s[:700]) + fmt.Sprintf("   ... (%d bytes) ...\n", len(s)-1400) + indent(s[len(s)-700:])
			}
			return indent(s)
		}
		debugf("violation %s", key+"/"+bs)
		r.Violate(key+"/"+bs, fmt.Sprintf("file %s %s(%q):\n%s preprocessed (%q):\n%s %s", a.f.key, a.f.why, clip(string(file), 200), show(string(file)), clip(pre, 200), show(pre), a.detail),
			map[string]interface{}{"part": "preprocess", "family": a.f.family, "file": string(file), "preprocessed": pre, "backends": bl, "serial": dnsfix.Serial})
	}
	return st
}

func clip(s string, n int) string {
	if len(s) > n {
		return s[:n] + "..."
	}
	return s
}
