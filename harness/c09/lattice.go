package main

// Option lattice of the 17 data-file line types.
//
// A line type is a positional list of fields; every field has an ordered list
// of variants. Variant 0 is the BASE (the simplest well-formed choice: a plain
// value for a required field, "absent" for an optional one). Variants with role
// roleDefault / roleNondef together with the base form the CORE lattice of a
// field (absent / explicitly equal to its default / typical other value);
// all other variants are EXTRAS (edge values: escapes, wildcard, IPv6, 0/1/max/
// overflow ...). Two pseudo-fields close the vector: the separator (',' or ':')
// and whether trailing empty fields are trimmed or written out.
//
// A CASE is a vector of variant indices. The enumerated set is
//   L = the full product of the core variants of all fields, and
//   X = every vector with 1..E fields carrying an extra while the remaining
//       fields are all-absent, all-explicit-default or all-non-default,
//       times separator times trimming.
// Sub-cases of a case (for minimisation) are obtained by resetting coordinates
// to the base.

import (
	"strings"

	"verifharness/dnsfix"
)

type role uint8

const (
	roleBase role = iota
	roleDefault
	roleNondef
	roleExtra
)

type variant struct {
	name string
	text string
	role role
}

type field struct {
	name string
	vars []variant
}

type ltype struct {
	name   string // regex-friendly name used in fingerprints
	ch     string // the type character
	fields []field
	// valid reports type-specific constraints between fields (texts by field index).
	valid func(txt []string) bool
}

func base(name, text string) variant { return variant{name, text, roleBase} }
func def(text string) variant        { return variant{"default", text, roleDefault} }
func nondef(text string) variant     { return variant{"nondef", text, roleNondef} }
func ex(name, text string) variant   { return variant{name, text, roleExtra} }

// owner names. wildName is "wild" where the type gives "*." a meaning, "star" where it is a literal label.
func owner(wildName string) field {
	return field{"dom", []variant{
		base("plain", "www.example.com"),
		ex(wildName, "*.w.example.com"),
		ex(wildName+"-esc", `\052.w.example.com`),
		ex("upper", "WWW.Example.COM"),
		ex("tdot", "www.example.com."),
		ex("ddot", "www..example.com"),
		ex("esc-comma", `a\054b.example.com`),
		ex("esc-colon", `a\072b.example.com`),
		ex("esc-dot", `a\056b.example.com`),
		ex("esc-nul", `a\000b.example.com`),
		ex("esc-letter", `w\167w.example.com`),
		ex("esc-bslash", `a\134b.example.com`),
		ex("high", `a\351b.example.com`),
		ex("single", "com"),
		ex("root", "."),
	}}
}

// a domain name that is data (SOA mname/rname, CNAME/PTR target, SVCB target)
func target(name string) field {
	return field{name, []variant{
		base("plain", "t.example.net"),
		ex("upper", "T.Example.NET"),
		ex("tdot", "t.example.net."),
		ex("ddot", "t..example.net"),
		ex("esc-comma", `a\054b.example.net`),
		ex("esc-colon", `a\072b.example.net`),
		ex("esc-dot", `a\056b.example.net`),
		ex("esc-nul", `a\000b.example.net`),
		ex("single", "net"),
		ex("single-tdot", "net."),
		ex("root", "."),
	}}
}

// the "x" field of . & @ S lines: a full name, or one label expanded to x.ns/mx/srv.<fqdn>
func xfield() field {
	return field{"x", []variant{
		base("plain", "a.ns.example.net"),
		ex("short", "a"),
		ex("short-tdot", "a."),
		ex("upper", "A.NS.Example.NET"),
		ex("tdot", "a.ns.example.net."),
		ex("ddot", "a..ns.example.net"),
		ex("esc-comma", `a\054b.example.net`),
		ex("esc-colon", `a\072b.example.net`),
		ex("esc-nul", `a\000b.example.net`),
		ex("short-esc", `a\054b`),
		ex("root", "."),
	}}
}

func ipOptional() field {
	return field{"ip", []variant{
		base("absent", ""),
		nondef("192.0.2.1"),
		ex("v6", "2001:db8::1"),
		ex("mapped", "::ffff:192.0.2.1"),
		ex("v6-long", "2001:0DB8:0:0:0:0:0:1"),
		ex("v4-zero", "0.0.0.0"),
		ex("v6-zero", "::"),
	}}
}

func ipRequired() field {
	return field{"ip", []variant{
		base("v4", "192.0.2.1"),
		ex("v6", "2001:db8::1"),
		ex("mapped", "::ffff:192.0.2.1"),
		ex("v6-long", "2001:0DB8:0:0:0:0:0:1"),
		ex("v4-zero", "0.0.0.0"),
		ex("v6-zero", "::"),
	}}
}

// numeric optional field. dflt is the value the parser assumes when absent.
func num(name, dflt, other, max, overflow string) field {
	f := field{name, []variant{base("absent", ""), def(dflt), nondef(other)}}
	seen := map[string]bool{dflt: true, other: true}
	for _, e := range []variant{ex("zero", "0"), ex("one", "1"), ex("max", max), ex("overflow", overflow)} {
		if !seen[e.text] {
			seen[e.text] = true
			f.vars = append(f.vars, e)
		}
	}
	return f
}

const (
	u32max = "4294967295"
	u32ovf = "4294967296"
	u16max = "65535"
	u16ovf = "65536"
)

func ttl(dflt string) field { return num("ttl", dflt, "300", u32max, u32ovf) }

func ts() field {
	return field{"ts", []variant{base("absent", ""), nondef("4000000012345678")}}
}

func loc() field {
	return field{"lo", []variant{
		base("absent", ""),
		nondef("aa"),
		ex("esc", `\000\001`),
		ex("zero", `\000\000`),
		ex("mixed", `a\001`),
		ex("esc-seps", `\054\072`),
	}}
}

func locRequired() field {
	return field{"lo", []variant{
		base("aa", "aa"),
		ex("esc", `\000\001`),
		ex("zero", `\000\000`),
		ex("mixed", `a\001`),
		ex("esc-seps", `\054\072`),
	}}
}

func lmapRequired() field {
	return field{"lmap", []variant{
		base("m1", "m1"),
		ex("esc", `\000\001`),
		ex("esc-seps", `\054\072`),
		ex("absent", ""),
	}}
}

func lmapOptional() field {
	return field{"lmap", []variant{
		base("absent", ""),
		nondef("m1"),
		ex("esc", `\000\001`),
		ex("esc-seps", `\054\072`),
	}}
}

func serialText() string {
	return uitoa(dnsfix.Serial)
}

func uitoa(n int) string {
	if n == 0 {
		return "0"
	}
	s := ""
	for n > 0 {
		s = string(rune('0'+n%10)) + s
		n /= 10
	}
	return s
}

func svcbFields() []field {
	return []field{
		owner("wild"),
		target("target"),
		num("ttl", "0", "300", u32max, u32ovf), // SVCB lines have no default TTL: absent means 0
		loc(),
		num("prio", "0", "1", u16max, u16ovf),
		{"params", []variant{
			base("absent", ""),
			nondef("port=8080"),
			ex("alpn", "alpn=h2|h3"),
			ex("alpn-quoted", `alpn="h2|h3"`),
			ex("nda", "alpn=h2;no-default-alpn="),
			ex("v4hint", "ipv4hint=192.0.2.1|192.0.2.2"),
			ex("v6hint", "ipv6hint=2001:db8::1"),
			ex("v6hint-multi", "ipv6hint=2001:db8::1|2001:db8::2"),
			ex("v6hint-long", "ipv6hint=2001:0DB8:0:0:0:0:0:1"),
			ex("v6hint-mapped", "ipv6hint=::ffff:192.0.2.1"),
			ex("ech", `echconfig="dHJhZmZpYw=="`),
			ex("mandatory", "mandatory=alpn|port;alpn=h2;port=443"),
			ex("unsorted", "port=53;alpn=h2"),
			ex("all", `ipv4hint="1.2.3.4|2.3.4.5";mandatory="ipv4hint|alpn|ipv6hint";alpn=h2|h3;ipv6hint=face:b00c::;echconfig="dHJhZmZpYw==";no-default-alpn=;port=8080`),
		}},
	}
}

func nsLike() []field {
	return []field{owner("star"), ipOptional(), xfield(), ttl("259200"), ts(), loc()}
}

func lineTypes() []ltype {
	long := strings.Repeat("0123456789", 20)
	return []ltype{
		{name: "net", ch: "%", fields: []field{
			locRequired(),
			{"ipnet", []variant{
				base("v4-8", "10.0.0.0/8"),
				ex("v4-24", "192.168.1.0/24"),
				ex("v4-23", "197.241.0.0/23"),
				ex("v4-host", "192.0.2.1"),
				ex("v4-32", "192.0.2.1/32"),
				ex("v4-default", "0.0.0.0/0"),
				ex("empty", ""),
				ex("v4-hostbits", "10.1.2.3/8"),
				ex("v6-32", "2001:db8::/32"),
				ex("v6-64", "2001:db8:0:1::/64"),
				ex("v6-default", "::/0"),
				ex("v6-host", "2001:db8::1"),
				ex("v6-128", "2001:db8::1/128"),
				ex("v6-long", "2001:0DB8:0:0:0:0:0:0/32"),
				ex("mapped-104", "::ffff:10.0.0.0/104"),
				ex("mapped-96", "::ffff:0:0/96"),
			}},
			lmapOptional(),
		}},
		{name: "soa", ch: "Z", fields: []field{
			owner("star"), target("mname"), target("rname"),
			num("ser", serialText(), "42", u32max, u32ovf),
			num("ref", "16384", "7200", u32max, u32ovf),
			num("ret", "2048", "1800", u32max, u32ovf),
			num("exp", "1048576", "604800", u32max, u32ovf),
			num("min", "2560", "120", u32max, u32ovf),
			ttl("2560"), ts(), loc(),
		}},
		{name: "dot", ch: ".", fields: nsLike()},
		{name: "ns", ch: "&", fields: nsLike()},
		{name: "addr", ch: "+", fields: []field{
			owner("wild"), ipRequired(), ttl("86400"), ts(), loc(),
			num("weight", "1", "50000", u32max, u32ovf),
		}},
		{name: "paddr", ch: "=", fields: []field{owner("wild"), ipRequired(), ttl("86400"), ts(), loc()}},
		{name: "mx", ch: "@", fields: []field{
			owner("star"), ipOptional(), xfield(),
			num("dist", "0", "10", u16max, u16ovf),
			ttl("86400"), ts(), loc(),
		}},
		{name: "srv", ch: "S", fields: []field{
			owner("star"), ipOptional(), xfield(),
			num("port", "0", "443", u16max, u16ovf),
			num("prio", "0", "10", u16max, u16ovf),
			num("weight", "0", "5", u16max, u16ovf),
			ttl("86400"), ts(), loc(),
		}},
		{name: "cname", ch: "C", fields: []field{owner("wild"), target("p"), ttl("86400"), ts(), loc()}},
		{name: "ptr", ch: "^", fields: []field{owner("star"), target("p"), ttl("86400"), ts(), loc()}},
		{name: "txt", ch: "'", fields: []field{
			owner("wild"),
			{"s", []variant{
				base("plain", "hello"),
				ex("spaces", "v=spf1 a ~all"),
				ex("esc-comma", `a\054b`),
				ex("esc-colon", `a\072b`),
				ex("raw-colon", "ip4:192.0.2.1"),
				ex("raw-comma", "a,b"),
				ex("long", long),
				ex("empty", ""),
				ex("nul", `\000`),
				ex("quote", `say "hi"`),
				ex("bslash", `a\134b`),
				ex("high", `\351`),
				ex("esc-space", `a\040b`),
			}},
			ttl("86400"), ts(), loc(),
		}},
		{name: "aux", ch: ":", fields: []field{
			owner("star"),
			{"n", []variant{base("t99", "99"), ex("t16", "16"), ex("t257", "257"), ex("max", u16max), ex("overflow", u16ovf)}},
			{"rdata", []variant{
				base("bytes", `\001\002\003\004`),
				ex("text", "some text"),
				ex("empty", ""),
				ex("esc-seps", `\054\072`),
				ex("nul", `\000`),
				ex("high", `\377`),
			}},
			ttl("86400"), ts(), loc(),
		}},
		{name: "ipmap", ch: "M", fields: []field{owner("wild"), lmapRequired()}},
		{name: "csmap", ch: "8", fields: []field{owner("wild"), lmapRequired()}},
		{name: "rangepoint", ch: "!", fields: []field{
			lmapRequired(),
			{"ip", []variant{
				base("v4", "10.0.0.0"),
				ex("v4-zero", "0.0.0.0"),
				ex("v4-last", "255.255.255.255"),
				ex("v6", "2001:db8::"),
				ex("v6-zero", "::"),
				ex("v6-after-v4", "::1:0:0:0"),
				ex("v6-long", "2001:0DB8:0:0:0:0:0:0"),
				ex("mapped", "::ffff:10.0.0.0"),
			}},
			{"mask", []variant{
				base("absent", ""),
				nondef("8"),
				ex("zero", "0"),
				ex("one", "1"),
				ex("m32", "32"),
				ex("m64", "64"),
				ex("m128", "128"),
			}},
			loc(),
		}, valid: func(txt []string) bool {
			// a prefix length above 32 is only meaningful with an IPv6 start address
			v4 := !strings.Contains(txt[1], ":") || strings.HasPrefix(txt[1], "::ffff:")
			if v4 && (txt[2] == "64" || txt[2] == "128") {
				return false
			}
			return true
		}},
		{name: "svcb", ch: "B", fields: svcbFields()},
		{name: "https", ch: "H", fields: svcbFields()},
	}
}

// vector layout: one coordinate per field, then separator, then trimming.
var sepVars = []variant{base("comma", ","), {"colon", ":", roleNondef}}
var trimVars = []variant{base("trimmed", "trimmed"), {"written", "written", roleNondef}}

func (t *ltype) nvars(i int) int {
	switch {
	case i < len(t.fields):
		return len(t.fields[i].vars)
	default:
		return 2
	}
}

func (t *ltype) variant(i int, v uint8) variant {
	switch {
	case i < len(t.fields):
		return t.fields[i].vars[v]
	case i == len(t.fields):
		return sepVars[v]
	default:
		return trimVars[v]
	}
}

func (t *ltype) coordName(i int) string {
	switch {
	case i < len(t.fields):
		return t.fields[i].name
	case i == len(t.fields):
		return "sep"
	default:
		return "trailing"
	}
}

// line renders the vector; ok=false if the combination is not expressible
// (a field contains the chosen separator unescaped) or violates a type constraint.
func (t *ltype) line(vec []uint8) (string, bool) {
	n := len(t.fields)
	sep := sepVars[vec[n]].text
	txt := make([]string, n)
	for i := 0; i < n; i++ {
		txt[i] = t.fields[i].vars[vec[i]].text
		if strings.Contains(txt[i], sep) {
			return "", false
		}
	}
	if t.valid != nil && !t.valid(txt) {
		return "", false
	}
	if vec[n+1] == 0 {
		for len(txt) > 1 && txt[len(txt)-1] == "" {
			txt = txt[:len(txt)-1]
		}
	}
	return t.ch + strings.Join(txt, sep), true
}

// describe names the non-base coordinates of a vector ("base" if none).
func (t *ltype) describe(vec []uint8) string {
	var parts []string
	for i, v := range vec {
		if v != 0 {
			parts = append(parts, t.coordName(i)+"="+t.variant(i, v).name)
		}
	}
	if len(parts) == 0 {
		return "base"
	}
	return strings.Join(parts, ",")
}

// pick returns, for context c, the index of the variant of coordinate i that
// has the wanted role (0 if the field has no such variant).
func (t *ltype) pick(i int, want role) uint8 {
	for v := 0; v < t.nvars(i); v++ {
		if t.variant(i, uint8(v)).role == want {
			return uint8(v)
		}
	}
	return 0
}

// enumerate lists the case vectors of the type for at most maxExtras
// simultaneous extras, without duplicates, in a deterministic order.
func (t *ltype) enumerate(maxExtras int) (out [][]uint8, nCore, nExtra int) {
	n := len(t.fields) + 2
	seen := map[string]bool{}
	add := func(v []uint8) bool {
		k := string(v)
		if seen[k] {
			return false
		}
		seen[k] = true
		out = append(out, append([]uint8(nil), v...))
		return true
	}
	// L: full product of core variants
	core := make([][]uint8, n)
	for i := 0; i < n; i++ {
		for v := 0; v < t.nvars(i); v++ {
			if t.variant(i, uint8(v)).role != roleExtra {
				core[i] = append(core[i], uint8(v))
			}
		}
	}
	vec := make([]uint8, n)
	var rec func(i int)
	rec = func(i int) {
		if i == n {
			if add(vec) {
				nCore++
			}
			return
		}
		for _, v := range core[i] {
			vec[i] = v
			rec(i + 1)
		}
	}
	rec(0)
	// X: 1..maxExtras extras over three contexts, both separators, both trimmings
	nf := len(t.fields)
	var extras [][2]int // (field, variant)
	for i := 0; i < nf; i++ {
		for v := 0; v < t.nvars(i); v++ {
			if t.variant(i, uint8(v)).role == roleExtra {
				extras = append(extras, [2]int{i, v})
			}
		}
	}
	contexts := []role{roleBase, roleDefault, roleNondef}
	var chosen [][2]int
	emit := func() {
		for _, c := range contexts {
			for i := 0; i < nf; i++ {
				vec[i] = 0
				if c != roleBase {
					vec[i] = t.pick(i, c)
				}
			}
			for _, e := range chosen {
				vec[e[0]] = uint8(e[1])
			}
			for s := 0; s < 2; s++ {
				for tr := 0; tr < 2; tr++ {
					vec[nf], vec[nf+1] = uint8(s), uint8(tr)
					if add(vec) {
						nExtra++
					}
				}
			}
		}
	}
	var choose func(start, left int)
	choose = func(start, left int) {
		if len(chosen) > 0 {
			emit()
		}
		if left == 0 {
			return
		}
		for k := start; k < len(extras); k++ {
			if len(chosen) > 0 && chosen[len(chosen)-1][0] == extras[k][0] {
				continue // one variant per field
			}
			chosen = append(chosen, extras[k])
			choose(k+1, left-1)
			chosen = chosen[:len(chosen)-1]
		}
	}
	choose(0, maxExtras)
	return out, nCore, nExtra
}
