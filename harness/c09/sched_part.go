package main

import "verifharness/vlib"

// The schedules part lives in its own binary (harness/c09_sched), built by ./check with package dnsdata
// instrumented for the controlled scheduler; it is run here as shard processes and merged into this run.
func schedulesPart(r *vlib.Run) string {
	r.ForkAux("sched", 10)
	r.Assume = append(r.Assume, "schedules part: the scenarios with several maps run one schedule each (the producers are started in Go's map iteration order, which no replay can reproduce); schedules beyond the preemption bound and data files beyond the listed ones are outside this part")
	return " part 3 (schedules, auxiliary binary c09_sched): the real Codec.Preprocess under the controlled scheduler with happens-before events for every struct field, package variable, captured local, slice element, append/copy target and map of package dnsdata, on 10 data files: no map; one map with 2 subnets, with 99, exactly 100 and 101 range points (one chunk, one full chunk, a full chunk plus one line), with 123 and with 243 range points (three chunks through a channel of capacity 1); two maps of 2 and three maps of 60 subnets; 40 ordinary and two SOA lines around a map of 60 subnets (output beyond the reader's 512-byte buffer). Every interleaving within the preemption bound (2 for the two small files, 1 for the files with 99, 100 and 101 range points, 0 - schedules that differ only in which of the runnable goroutines continues when the running one blocks or ends - for the larger files; thorough: 3 for the two small files, 1 for all other single-map files; the several-map files: bound 0 in both tiers) is executed; races, deadlock, panics are violations, and on every complete execution the preprocessed text must compile (dnsdata.Parse, the RocksDB compiler's codec, v1 and v2 keys) to the same records as the original."
}
