package main

// Part 2: preprocessing preserves the compiled database.
// Every file (sequence without repetition) of at most k lines over the
// alphabet below is (a) compiled with the real RocksDB compiler, (b) run
// through the real preprocessor (Codec.Preprocess, configured exactly as
// cmd/dnsrocks-preproc does) and the output compiled; the raw dumps of the two
// databases must be equal, for v1 and for v2 keys, same serial on both sides.
// A second pass repeats the comparison one line deeper on the parsed key/value
// stream (dnsdata.Parse with the compiler's codec), i.e. without the storage step.

import (
	"bytes"
	"fmt"
	"os"
	"sort"
	"strings"
	"sync"
	"sync/atomic"
	"time"

	"github.com/facebookincubator/dns/dnsrocks/dnsdata"

	"verifharness/dnsfix"
	"verifharness/vlib"
)

type pline struct{ id, text string }

const soaTail = ",7200,1800,604800,120,300,,"

var palphabet = []pline{
	{"Z-short", "Zexample.com,ns.example.com,adm.example.com"},
	{"net-m1-10-8", "%aa,10.0.0.0/8,m1"},
	{"a", "+www.example.com,192.0.2.1"},
	{"Z-empty", "Zexample.com,ns.example.com,adm.example.com," + soaTail},
	{"Z-ser42", "Zexample.com,ns.example.com,adm.example.com,42" + soaTail},
	{"Z-ser0", "Zexample.com,ns.example.com,adm.example.com,0" + soaTail},
	{"net-m1-10.1-16", "%bb,10.1.0.0/16,m1"},
	{"net-m1-11-8", `%\000\001,11.0.0.0/8,m1`},
	{"net-m1-v4def", "%bb,0.0.0.0/0,m1"},
	{"net-m1-v6-32", "%aa,2001:db8::/32,m1"},
	{"net-m1-v6-48", "%bb,2001:db8:1::/48,m1"},
	{"net-m1-v6-host", "%bb,2001:db8::1,m1"},
	{"net-c1-v6def", "%aa,::/0,c1"},
	{"net-c1-192-24", "%bb,192.168.1.0/24,c1"},
	{"net-c1-host", `%\000\001,192.168.1.7,c1`},
	{"net-m1-colon", "%aa:172.16.0.0/12:m1"},
	{"Z-loc", "Zsub.example.com,ns.example.com,adm.example.com,77,,,,,,,aa"},
	{"Z-colon", "Zexample.org:ns.example.org:adm.example.org::7200"},
	{"ns", "&example.com,,ns.example.com"},
	{"M", "Mexample.com,m1"},
	{"dot", ".deleg.example.com,192.0.2.53,a"},
	{"https", "Hwww.example.com,.,300,,1,port=443"},
	{"rangepoint", `!m1,10.0.0.0,8,aa`},
	{"comment", "# comment"},
	{"sp-net", " %bb,172.20.0.0/16,m1"},
}

func fileText(idx []int) []byte {
	var b bytes.Buffer
	for _, i := range idx {
		b.WriteString(palphabet[i].text)
		b.WriteByte('\n')
	}
	return b.Bytes()
}

func fileKey(idx []int) string {
	ids := make([]string, len(idx))
	for k, i := range idx {
		ids[k] = palphabet[i].id
	}
	if len(ids) == 0 {
		return "empty"
	}
	return strings.Join(ids, ",")
}

// preprocess runs the real preprocessor the way cmd/dnsrocks-preproc sets it up.
func preprocess(text []byte) (out []byte, err error) {
	defer func() {
		if p := recover(); p != nil {
			err = fmt.Errorf("panic: %v", p)
		}
	}()
	codec := new(dnsdata.Codec)
	codec.Acc.Ranger.Enable()
	codec.Acc.NoPrefixSets = true
	codec.NoRnetOutput = true
	codec.Serial = dnsfix.Serial
	var w bytes.Buffer
	if err := codec.Preprocess(bytes.NewReader(text), &w); err != nil {
		return nil, err
	}
	return w.Bytes(), nil
}

func linesStarting(text []byte, c byte) int {
	n := 0
	for _, l := range bytes.Split(text, []byte("\n")) {
		if len(l) > 0 && l[0] == c {
			n++
		}
	}
	return n
}

func withoutComments(text []byte) []byte {
	var out []byte
	for _, l := range bytes.SplitAfter(text, []byte("\n")) {
		if len(l) > 0 && l[0] != '#' {
			out = append(out, l...)
		}
	}
	return out
}

// enumerate all sequences without repetition of length <= k
func sequences(n, k int) [][]int {
	var out [][]int
	var cur []int
	used := make([]bool, n)
	var rec func()
	rec = func() {
		out = append(out, append([]int(nil), cur...))
		if len(cur) == k {
			return
		}
		for i := 0; i < n; i++ {
			if used[i] {
				continue
			}
			used[i] = true
			cur = append(cur, i)
			rec()
			cur = cur[:len(cur)-1]
			used[i] = false
		}
	}
	rec()
	sort.SliceStable(out, func(a, b int) bool { return len(out[a]) < len(out[b]) })
	return out
}

type presult struct {
	kind   string // "" ok, "skip" (original does not compile), else failure kind
	detail string
}

// compareDB: real compile + raw dump of both sides.
func compareDB(dir string, b dnsfix.Backend, orig, pre []byte, preErr error) presult {
	p1, err := dnsfix.Compile(dir, b, orig)
	if err != nil {
		return presult{kind: "skip", detail: err.Error()}
	}
	d1, err := dnsfix.DumpRDB(p1)
	os.RemoveAll(p1)
	if err != nil {
		vlib.Infra("dump of %s failed: %v", p1, err)
	}
	if preErr != nil {
		return presult{kind: "preproc-error", detail: fmt.Sprintf("file compiles, preprocessing it fails: %v", preErr)}
	}
	p2, err := dnsfix.Compile(dir, b, pre)
	if err != nil {
		return presult{kind: "recompile-error", detail: fmt.Sprintf("preprocessed file does not compile: %v", err)}
	}
	d2, err := dnsfix.DumpRDB(p2)
	os.RemoveAll(p2)
	if err != nil {
		vlib.Infra("dump of %s failed: %v", p2, err)
	}
	if diff := d1.Diff(d2); diff != "" {
		return presult{kind: "diff", detail: "database of original vs database of preprocessed: " + diff}
	}
	return presult{}
}

// parseAll is the compiler's front half: initCodec + dnsdata.Parse.
func parseAll(text []byte, v2 bool) (d dnsfix.Dump, err error) {
	defer func() {
		if p := recover(); p != nil {
			err = fmt.Errorf("panic: %v", p)
		}
	}()
	codec := newCodec(cfg{v2: v2, rdb: true})
	recs, err := dnsdata.Parse(bytes.NewReader(text), codec, 1)
	if err != nil {
		return nil, err
	}
	d = dnsfix.Dump{}
	for _, m := range recs {
		d[string(m.Key)] = append(d[string(m.Key)], string(m.Value))
	}
	for k := range d {
		sort.Strings(d[k])
	}
	return d, nil
}

func compareMem(v2 bool, orig, pre []byte, preErr error) presult {
	d1, err := parseAll(orig, v2)
	if err != nil {
		return presult{kind: "skip", detail: err.Error()}
	}
	if preErr != nil {
		return presult{kind: "preproc-error", detail: fmt.Sprintf("file compiles, preprocessing it fails: %v", preErr)}
	}
	d2, err := parseAll(pre, v2)
	if err != nil {
		return presult{kind: "recompile-error", detail: fmt.Sprintf("preprocessed file does not compile: %v", err)}
	}
	if diff := d1.Diff(d2); diff != "" {
		return presult{kind: "diff", detail: "database of original vs database of preprocessed: " + diff}
	}
	return presult{}
}

type preStats struct {
	files, dbPairs, memFiles, memPairs int64
	skipped, failing, nontrivial       int64
	rangePointLines                    int64
	memNs, dbNs                        int64 // debug timing only
}

var pbackends = []dnsfix.Backend{dnsfix.RDBv1, dnsfix.RDBv2}

// dbCore is the sub-alphabet from which the larger real-database files are drawn:
// one % line per map, the indented % line, the SOA serial variants, one ordinary line.
var dbCore = []string{"net-m1-10-8", "net-c1-v6def", "sp-net", "Z-empty", "Z-ser0", "a", "Z-ser42", "Z-short"}

// dbSpace decides, deterministically, which files are compared on a real
// RocksDB: every SET of <= kAll lines of the full alphabet and every set of
// <= kCore lines of the first coreSize lines of dbCore, each set written once,
// in alphabet order (all orders are covered by the parsed-stream comparison).
// The space is closed under taking subsequences.
type dbSpace struct {
	kAll, kCore int
	core        map[int]bool
}

func newDBSpace(kAll, kCore, coreSize int) *dbSpace {
	d := &dbSpace{kAll: kAll, kCore: kCore, core: map[int]bool{}}
	for _, id := range dbCore[:coreSize] {
		found := false
		for i, l := range palphabet {
			if l.id == id {
				d.core[i] = true
				found = true
			}
		}
		if !found {
			vlib.Infra("dbCore line %q is not in the alphabet", id)
		}
	}
	return d
}

func (d *dbSpace) contains(s []int) bool {
	if len(s) > d.kAll && len(s) > d.kCore {
		return false
	}
	for k, i := range s {
		if k > 0 && s[k-1] >= i {
			return false
		}
		if len(s) > d.kAll && !d.core[i] {
			return false
		}
	}
	return true
}

type pres struct{ db, mem [2]presult }

// preprocCheck holds part 2. The real-database comparisons are latency-bound
// (RocksDB open/close), so they are started first and run on their own
// goroutines while part 1 keeps the CPUs busy; results are stored by file
// index, so nothing depends on the interleaving.
type preprocCheck struct {
	st      *preStats
	db      *dbSpace
	kMem    int
	dir     string
	noDB    bool
	seqs    [][]int
	results []pres
	index   map[string]int
	dbDone  chan struct{}
}

func newPreprocCheck(r *vlib.Run, dir string, db *dbSpace, kMem int) *preprocCheck {
	p := &preprocCheck{st: &preStats{}, db: db, kMem: kMem, dir: dir, index: map[string]int{}, dbDone: make(chan struct{})}
	p.noDB = os.Getenv("VERIF_C09_DEBUG_NODB") != "" // debugging aid only; the run is then marked not exhaustive
	if p.noDB {
		r.Exhaustive = false
		r.Note("VERIF_C09_DEBUG_NODB set: database comparisons of part 2 were not run")
	}
	p.seqs = sequences(len(palphabet), kMem)
	p.results = make([]pres, len(p.seqs))
	for i, s := range p.seqs {
		p.index[fileKey(s)] = i
	}
	return p
}

// startDB launches the real-database comparisons (unit of work = file x backend).
func (p *preprocCheck) startDB() {
	type unit struct{ file, bi int }
	var units []unit
	if !p.noDB {
		for i, s := range p.seqs {
			if p.db.contains(s) {
				p.st.files++
				for bi := range pbackends {
					units = append(units, unit{i, bi})
				}
			}
		}
	}
	go func() {
		defer close(p.dbDone)
		t0 := time.Now()
		var wg sync.WaitGroup
		next := int64(-1)
		for w := 0; w < vlib.Workers(); w++ {
			wg.Add(1)
			go func() {
				defer wg.Done()
				for {
					k := int(atomic.AddInt64(&next, 1))
					if k >= len(units) {
						return
					}
					u := units[k]
					orig := fileText(p.seqs[u.file])
					pre, perr := preprocess(orig)
					t1 := time.Now()
					p.results[u.file].db[u.bi] = compareDB(p.dir, pbackends[u.bi], orig, pre, perr)
					atomic.AddInt64(&p.st.dbPairs, 1)
					atomic.AddInt64(&p.st.dbNs, int64(time.Since(t1)))
				}
			}()
		}
		wg.Wait()
		debugf("part 2: %d database comparisons finished %.1fs after their start", len(units), time.Since(t0).Seconds())
	}()
}

// finish runs the parsed-stream comparisons, waits for the database ones and reports.
func (p *preprocCheck) finish(r *vlib.Run) *preStats {
	st, db, noDB, seqs, results, index := p.st, p.db, p.noDB, p.seqs, p.results, p.index
	vlib.ParallelFor(len(seqs), func(i int) {
		s := seqs[i]
		orig := fileText(s)
		pre, perr := preprocess(orig)
		if perr == nil && !bytes.Equal(pre, withoutComments(orig)) {
			// preprocessing did more than drop comments: range points emitted and/or a Z line rewritten
			atomic.AddInt64(&st.nontrivial, 1)
			atomic.AddInt64(&st.rangePointLines, int64(linesStarting(pre, '!')-linesStarting(orig, '!')))
		}
		atomic.AddInt64(&st.memFiles, 1)
		t0 := time.Now()
		for bi := range pbackends {
			results[i].mem[bi] = compareMem(bi == 1, orig, pre, perr)
			atomic.AddInt64(&st.memPairs, 1)
		}
		atomic.AddInt64(&st.memNs, int64(time.Since(t0)))
	})
	<-p.dbDone
	debugf("part 2: parsed-stream comparisons %.1fs, database comparisons %.1fs (summed over workers)", float64(st.memNs)/1e9, float64(st.dbNs)/1e9)
	// sequential, deterministic post-processing: minimal failing files
	type agg struct {
		backends map[string]bool
		detail   string
		file     string
		pre      string
	}
	found := map[string]*agg{}
	var order []string
	failsSame := func(sub []int, mode string, bi int, kind string) bool {
		j, ok := index[fileKey(sub)]
		if !ok {
			return false
		}
		if mode == "db" {
			return db.contains(sub) && !noDB && results[j].db[bi].kind == kind
		}
		return results[j].mem[bi].kind == kind
	}
	for i, s := range seqs {
		r.Sample(map[string]string{"part": "preprocess", "file": fileKey(s)})
		for _, mode := range []string{"db", "mem"} {
			if mode == "db" && (!db.contains(s) || noDB) {
				continue
			}
			for bi, b := range pbackends {
				pr := results[i].mem[bi]
				if mode == "db" {
					pr = results[i].db[bi]
				}
				if pr.kind == "skip" {
					st.skipped++
					continue
				}
				if pr.kind == "" {
					continue
				}
				st.failing++
				// minimal: no proper subsequence fails the same way
				minimal := true
				n := len(s)
				for mask := 0; mask < (1<<n)-1 && minimal; mask++ {
					var sub []int
					for k := 0; k < n; k++ {
						if mask&(1<<k) != 0 {
							sub = append(sub, s[k])
						}
					}
					if failsSame(sub, mode, bi, pr.kind) {
						minimal = false
					}
				}
				if !minimal {
					continue
				}
				key := "preproc/" + pr.kind + "/" + fileKey(s)
				a := found[key]
				if a == nil {
					orig := fileText(s)
					pre, _ := preprocess(orig)
					a = &agg{backends: map[string]bool{}, detail: pr.detail, file: string(orig), pre: string(pre)}
					found[key] = a
					order = append(order, key)
				}
				a.backends[b.String()] = true
			}
		}
	}
	sort.Strings(order)
	for _, key := range order {
		a := found[key]
		var bl []string
		for _, b := range pbackends {
			if a.backends[b.String()] {
				bl = append(bl, b.String())
			}
		}
		bs := strings.Join(bl, "+")
		if len(bl) == len(pbackends) {
			bs = "all"
		}
		debugf("violation %s", key+"/"+bs)
		r.Violate(key+"/"+bs, fmt.Sprintf("file:\n%s preprocessed:\n%s %s", indent(a.file), indent(a.pre), a.detail),
			map[string]interface{}{"part": "preprocess", "file": a.file, "preprocessed": a.pre, "backends": bl, "serial": dnsfix.Serial})
	}
	return st
}

func indent(s string) string {
	if s == "" {
		return "   (empty)\n"
	}
	var b strings.Builder
	for _, l := range strings.SplitAfter(s, "\n") {
		if l != "" {
			b.WriteString("   " + l)
		}
	}
	if !strings.HasSuffix(s, "\n") {
		b.WriteString("\n")
	}
	return b.String()
}
