// C09: text normal form and preprocessing preserve meaning.
//
// Part 1 enumerates the option lattice of the 17 data-file line types (see
// lattice.go) and runs, on the real codec and for both key layouts and both
// codec modes:   r=DecodeLn(l); t1=MarshalText(r); r2=DecodeLn(t1) must succeed;
// compiled(r)==compiled(r2); MarshalText(r2)==t1   with a fresh codec for every
// DecodeLn and the same serial.
// Part 2 enumerates all small data files over an alphabet of subnet, SOA and
// ordinary lines and compares the RocksDB compiled from the file with the one
// compiled from the preprocessed file (see preproc.go).
package main

import (
	"fmt"
	"os"
	"sort"
	"time"

	"verifharness/dnsfix"
	"verifharness/vlib"
)

func main() {
	r := vlib.Start("C09")
	dir, clean := vlib.Scratch("c09")
	dnsfix.Quiet(dir)

	maxExtras := r.Pick(2, 3)
	// real-database space of part 2 (see dbSpace): quick = all files of <=1 line + sets of 2 lines of a 6-line core
	// (41 files, 164 compiles); thorough = all sets of <=2 lines + sets of 3 lines of the 8-line core (382 files, 1528 compiles)
	db := newDBSpace(r.Pick(1, 2), r.Pick(2, 3), r.Pick(6, 8))
	kMem := r.Pick(3, 4)

	// ---- part 1
	pp := newPreprocCheck(r, dir, db, kMem)
	pp.startDB()
	xr := startExtras(dir, pp.noDB)
	t0 := time.Now()
	ls := runLines(r, maxExtras)
	ls.report(r)
	debugf("part 1: %.1fs", time.Since(t0).Seconds())

	// ---- part 2
	t0 = time.Now()
	ps := pp.finish(r)
	debugf("part 2: %.1fs", time.Since(t0).Seconds())
	t0 = time.Now()
	xs := xr.finish(r)
	debugf("part 2, bulk and lexical files: %.1fs", time.Since(t0).Seconds())

	// ---- part 3: goroutine schedules of the preprocessor (auxiliary binary)
	t0 = time.Now()
	schedRule := schedulesPart(r)
	debugf("part 3: %.1fs", time.Since(t0).Seconds())

	total := ls.evals + ls.minimEvals + ps.dbPairs + ps.memPairs + xs.dbPairs + xs.memPairs + r.Int("schedule_executions")
	r.Set("states", ls.distinct+ps.memFiles+xs.lexFiles+xs.bulkFiles)
	r.Set("transitions", total)
	r.Set("evaluations", total)
	r.Set("traces_validated_against_impl", total)
	r.Set("distinct_nontrivial", ls.nontrivial+ps.nontrivial+xs.changed)

	r.Set("line_max_simultaneous_extras", maxExtras)
	r.Set("line_case_vectors", ls.cases)
	r.Set("line_core_lattice_vectors", ls.coreCases)
	r.Set("line_vectors_with_extras", ls.extraCases)
	r.Set("line_vectors_not_expressible", ls.skipped)
	r.Set("line_distinct_lines", ls.distinct)
	r.Set("line_evaluations", ls.evals)
	r.Set("line_evaluations_ok", ls.ok)
	r.Set("line_evaluations_rejected_by_parser", ls.rejected)
	r.Set("line_evaluations_failing", ls.failing)
	r.Set("line_evaluations_with_records", ls.records)
	r.Set("line_minimisation_evaluations", ls.minimEvals)
	r.Set("line_normal_form_differs_from_input", ls.nontrivial)
	r.Set("line_per_type", ls.perType)
	r.Set("line_codec_configurations", []string{cfgs[0].String(), cfgs[1].String(), cfgs[2].String(), cfgs[3].String()})
	rej := map[string][]string{}
	for k, v := range ls.rejectedSamples {
		sort.Strings(v)
		if len(v) > 12 {
			v = append(v[:12], fmt.Sprintf("... %d more", len(v)-12))
		}
		rej[k] = v
	}
	r.Set("line_rejected_cases_with_at_most_one_non_base_option", rej)
	r.Set("line_rejected_evaluations_per_type", ls.rejectedPerType)

	r.Set("preproc_alphabet_lines", len(palphabet))
	r.Set("preproc_max_lines_database_full_alphabet", db.kAll)
	r.Set("preproc_max_lines_database_core_alphabet", db.kCore)
	r.Set("preproc_max_lines_parsed_stream", kMem)
	r.Set("preproc_files_database", ps.files)
	r.Set("preproc_database_pairs_compiled", ps.dbPairs)
	r.Set("preproc_files_parsed_stream", ps.memFiles)
	r.Set("preproc_parsed_stream_pairs", ps.memPairs)
	r.Set("preproc_files_changed_by_preprocessing", ps.nontrivial)
	r.Set("preproc_range_point_lines_emitted", ps.rangePointLines)
	r.Set("preproc_comparisons_skipped_original_rejected", ps.skipped)
	r.Set("preproc_comparisons_failing", ps.failing)
	r.Set("preproc_bulk_files", xs.bulkFiles)
	r.Set("preproc_bulk_files_with_a_map_of_more_than_100_range_points", xs.bulkOver100)
	r.Set("preproc_bulk_max_range_points_in_one_map", xs.maxPointsOneMap)
	r.Set("preproc_bulk_max_output_bytes", xs.maxOutputBytes)
	r.Set("preproc_lexical_files", xs.lexFiles)
	r.Set("preproc_lexical_base_lines", len(xBases))
	r.Set("preproc_lexical_prefixes", len(xPrefixes))
	r.Set("preproc_lexical_suffixes", len(xSuffixes))
	r.Set("preproc_lexical_contexts", xContexts)
	r.Set("preproc_extra_files_database", xs.dbFiles)
	r.Set("preproc_extra_database_pairs_compiled", xs.dbPairs)
	r.Set("preproc_extra_parsed_stream_pairs", xs.memPairs)
	r.Set("preproc_extra_files_changed_by_preprocessing", xs.changed)
	r.Set("preproc_extra_comparisons_skipped_original_rejected", xs.skipped)
	r.Set("preproc_extra_comparisons_failing", xs.failing)
	r.Set("serial", dnsfix.Serial)
	r.Set("preproc_database_core_alphabet", dbCore[:len(db.core)])
	r.Set("preproc_database_rocksdb_compiles", 2*ps.dbPairs)

	r.Set("rule", fmt.Sprintf("part 1: for each of the 17 line types, every vector of the core option lattice (each optional field absent / explicitly default / other value, separator ',' or ':', trailing empty fields trimmed or written) plus every vector with 1..%d fields carrying an edge value (escaped bytes, wildcard, upper case, trailing/doubled dot, root, IPv6 / IPv4-mapped, 0/1/max/overflow, escaped locations ...) over the all-absent, all-default and all-other contexts; each line decoded, re-serialised, re-decoded and compiled by the real codec under 4 configurations (v1/v2 keys x CDB-style/RocksDB-style codec) with a fresh codec per decode; failing vectors are minimised by resetting options to the base. part 2: real RocksDB (v1 and v2 keys) compiled before and after the real Codec.Preprocess and the raw dumps compared for every set of <=%d lines of the %d-line alphabet plus every set of <=%d lines of its %d-line core, each set written once in alphabet order (one %% line per map, the indented %% line, the SOA serial variants, one ordinary line); the same comparison on the parsed key/value stream (dnsdata.Parse with the compiler's codec) for every sequence of <=%d lines of the full alphabet. states = distinct lines + files; transitions = oracle evaluations (incl. minimisation); nontrivial = lines whose normal form differs from the input + files changed by preprocessing. part 2 also compares, in the same two ways, %d bulk files (one map with 99, exactly 100, 101, 123 and 243 range points - the scanner hands range-point lines over in chunks of 100 -, IPv6 subnets, three and five maps, pass-through output of 600 bytes and 40 KB around a large map: beyond the reader's 512-byte and io.Copy's 32 KB buffers; all on the database and on the parsed stream) and %d lexical files: %d base lines (SOA with/without serial, subnet with/without map, A, TXT, a range-point line, the 1-byte lines Z %% + # !, 2-byte lines, the empty line) x %d prefixes (none, SP, SPSP, TAB) x %d suffixes (none, SP, TAB, CR, CRCR, ',') x contexts alone / after a subnet line / last without final newline, on the parsed stream and %d of them (SOA, subnet and the 1-byte Z line alone, every suffix) on the database; reported are the minimal failing decorations per base line."+schedRule, maxExtras, db.kAll, len(palphabet), db.kCore, len(db.core), kMem, xs.bulkFiles, xs.lexFiles, len(xBases), len(xPrefixes), len(xSuffixes), xs.dbFiles-xs.bulkFiles))
	r.Assume = append(r.Assume,
		"well-formed = the field layouts of tinydns-data as implemented by dnsdata (docs/data_format.md), values drawn from the variant lists in lattice.go",
		"the compiled meaning of a line includes the codec accumulator output (prefix sets / range points) of a codec that saw only that line",
		"lines rejected by the parser are outside the property; they are counted and listed in the evidence, not judged",
		"part 2 compiles with dnsfix.Serial on both sides and one parser worker; value order inside a key is not compared",
		"quoting of arbitrary bytes is C17's subject; SvcParam value syntax is C18's",
	)
	clean()
	r.Finish()
}

// debugf prints progress timing to stderr when VERIF_DEBUG is set (never part of the evidence).
func debugf(f string, a ...interface{}) {
	if os.Getenv("VERIF_DEBUG") != "" {
		fmt.Fprintf(os.Stderr, "debug: "+f+"\n", a...)
	}
}
