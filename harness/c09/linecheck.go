package main

// Part 1: the line-level oracle, executed on the real codec, and the
// minimisation of failing cases.

import (
	"bytes"
	"fmt"
	"sort"
	"strings"
	"sync"
	"sync/atomic"

	"github.com/facebookincubator/dns/dnsrocks/dnsdata"

	"verifharness/dnsfix"
	"verifharness/vlib"
)

// codec configuration: key layout x codec mode
type cfg struct {
	v2  bool
	rdb bool
}

func (c cfg) String() string {
	s := "cdb"
	if c.rdb {
		s = "rdb"
	}
	if c.v2 {
		return s + "-v2"
	}
	return s + "-v1"
}

var cfgs = []cfg{{false, false}, {true, false}, {false, true}, {true, true}}

// newCodec builds a fresh codec: CDB-style is the zero codec, RocksDB-style is
// what dnsdata/rdb/rdb_compiler.go initCodec sets up.
func newCodec(c cfg) *dnsdata.Codec {
	codec := new(dnsdata.Codec)
	codec.Serial = dnsfix.Serial
	codec.Features.UseV2Keys = c.v2
	if c.rdb {
		codec.Acc.Ranger.Enable()
		codec.Acc.NoPrefixSets = true
		codec.NoRnetOutput = true
	}
	return codec
}

// compiled returns everything the line contributes to a database: the record's
// own MarshalMap plus the codec accumulator's (prefix sets / range points), as
// a sorted multiset of "key=value" strings.
func compiled(codec *dnsdata.Codec, r dnsdata.Record) (all []string, own int, err error) {
	m, err := r.MarshalMap()
	if err != nil {
		return nil, 0, err
	}
	acc, err := codec.Acc.MarshalMap()
	if err != nil {
		return nil, 0, err
	}
	out := make([]string, 0, len(m)+len(acc))
	for _, x := range m {
		out = append(out, "rec "+string(x.Key)+kvSep+string(x.Value))
	}
	nrec := len(out)
	for _, x := range acc {
		out = append(out, "acc "+string(x.Key)+kvSep+string(x.Value))
	}
	sort.Strings(out[:nrec])
	sort.Strings(out[nrec:])
	return out, nrec, nil
}

// kvSep separates key and value in the strings built by compiled (raw bytes; quoted only when printed).
const kvSep = "\x00=>\x00"

func quoteKV(s string) string {
	i := strings.Index(s, kvSep)
	if i < 0 {
		return fmt.Sprintf("%q", s)
	}
	return fmt.Sprintf("%s%q=%q", s[:4], s[4:i], s[i+len(kvSep):])
}

type outcome struct {
	kind     string // "" ok, "rejected", or a failure kind
	detail   string
	t1       string
	nrecords int
}

const (
	kRejected = "rejected"
)

// evalLine runs the oracle of the statement on one line under one codec configuration.
func evalLine(line string, c cfg) (o outcome) {
	defer func() {
		if p := recover(); p != nil {
			o = outcome{kind: "panic", detail: fmt.Sprintf("line %q [%s]: panic: %v", line, c, p)}
		}
	}()
	c1 := newCodec(c)
	r, err := c1.DecodeLn([]byte(line))
	if err != nil {
		return outcome{kind: kRejected, detail: err.Error()}
	}
	m1, own, err := compiled(c1, r)
	if err != nil {
		return outcome{kind: kRejected, detail: "MarshalMap: " + err.Error()}
	}
	tb, err := r.MarshalText()
	if err != nil {
		return outcome{kind: "marshaltext-error", detail: fmt.Sprintf("line %q [%s]: parsed, MarshalText fails: %v", line, c, err), nrecords: own}
	}
	t1 := string(tb)
	o.t1, o.nrecords = t1, own
	c2 := newCodec(c)
	r2, err := c2.DecodeLn([]byte(t1))
	if err != nil {
		o.kind = "reparse"
		o.detail = fmt.Sprintf("line %q [%s]: normal form %q is rejected by the parser: %v", line, c, t1, err)
		return o
	}
	m2, _, err := compiled(c2, r2)
	if err != nil {
		o.kind = "reparse"
		o.detail = fmt.Sprintf("line %q [%s]: normal form %q parses but MarshalMap fails: %v", line, c, t1, err)
		return o
	}
	if !sameStrings(m1, m2) {
		o.kind = "map"
		o.detail = fmt.Sprintf("line %q [%s]: normal form %q compiles differently:\n original: %s\n reparsed: %s", line, c, t1, diffSide(m1, m2), diffSide(m2, m1))
		return o
	}
	t2b, err := r2.MarshalText()
	if err != nil {
		o.kind = "text"
		o.detail = fmt.Sprintf("line %q [%s]: normal form %q parses, but its MarshalText fails: %v", line, c, t1, err)
		return o
	}
	if !bytes.Equal(t2b, tb) {
		o.kind = "text"
		o.detail = fmt.Sprintf("line %q [%s]: normal form is not a fixed point: %q -> %q", line, c, t1, t2b)
		return o
	}
	return o
}

func sameStrings(a, b []string) bool {
	if len(a) != len(b) {
		return false
	}
	for i := range a {
		if a[i] != b[i] {
			return false
		}
	}
	return true
}

// diffSide lists the entries of a that are not in b.
func diffSide(a, b []string) string {
	in := map[string]int{}
	for _, x := range b {
		in[x]++
	}
	var out []string
	for _, x := range a {
		if in[x] > 0 {
			in[x]--
			continue
		}
		out = append(out, quoteKV(x))
	}
	if len(out) == 0 {
		return "(nothing extra)"
	}
	return strings.Join(out, " ; ")
}

// minimise descends from a failing vector to a failing vector of the same
// kind none of whose sub-cases (coordinates reset to base) fails that way.
func minimise(t *ltype, vec []uint8, c cfg, kind string, evals *int64) []uint8 {
	cur := append([]uint8(nil), vec...)
	fails := func(v []uint8) bool {
		line, ok := t.line(v)
		if !ok {
			return false
		}
		atomic.AddInt64(evals, 1)
		return evalLine(line, c).kind == kind
	}
	for {
		// single resets until none applies
		for changed := true; changed; {
			changed = false
			for i := len(cur) - 1; i >= 0; i-- {
				if cur[i] == 0 {
					continue
				}
				old := cur[i]
				cur[i] = 0
				if fails(cur) {
					changed = true
				} else {
					cur[i] = old
				}
			}
		}
		// every proper subset of the remaining non-base coordinates
		var nb []int
		for i, v := range cur {
			if v != 0 {
				nb = append(nb, i)
			}
		}
		if len(nb) < 3 || len(nb) > 14 {
			return cur // sizes 1 and 2 are fully covered by the single resets
		}
		found := false
		w := make([]uint8, len(cur))
		for mask := 1; mask < (1<<len(nb))-1 && !found; mask++ {
			copy(w, cur)
			bits := 0
			for b, i := range nb {
				if mask&(1<<b) != 0 {
					w[i] = 0
					bits++
				}
			}
			if bits < 2 {
				continue
			}
			if fails(w) {
				copy(cur, w)
				found = true
			}
		}
		if !found {
			return cur
		}
	}
}

type finding struct {
	t     *ltype
	vec   []uint8
	kind  string
	cfgs  map[string]bool
	cases int64
}

type lineStats struct {
	cases, coreCases, extraCases int64
	skipped                      int64 // vectors not expressible with the chosen separator / constraint
	evals, ok, rejected, failing int64
	minimEvals                   int64
	nontrivial                   int64 // distinct lines whose normal form differs from the input
	records                      int64 // evaluations that compiled to at least one key
	distinct                     int64
	perType                      map[string]*typeStats
	mu                           sync.Mutex
	findings                     map[string]*finding
	rejectedSamples              map[string][]string // per type: distinct rejected lines (first few) with the error
	rejectedPerType              map[string]int64
}

type typeStats struct {
	Lines    int64 `json:"lines"`
	Core     int64 `json:"core_lattice"`
	Extras   int64 `json:"with_extras"`
	Evals    int64 `json:"evaluations"`
	Rejected int64 `json:"rejected_evaluations"`
	Failing  int64 `json:"failing_evaluations"`
}

func runLines(r *vlib.Run, maxExtras int) *lineStats {
	st := &lineStats{perType: map[string]*typeStats{}, findings: map[string]*finding{}, rejectedSamples: map[string][]string{}, rejectedPerType: map[string]int64{}}
	types := lineTypes()
	type task struct {
		t   *ltype
		vec []uint8
	}
	var tasks []task
	for i := range types {
		t := &types[i]
		vecs, nc, ne := t.enumerate(maxExtras)
		st.perType[t.name] = &typeStats{Core: int64(nc), Extras: int64(ne)}
		st.coreCases += int64(nc)
		st.extraCases += int64(ne)
		for _, v := range vecs {
			tasks = append(tasks, task{t, v})
		}
	}
	st.cases = int64(len(tasks))
	for _, tk := range tasks { // deterministic sampling, in enumeration order
		if line, ok := tk.t.line(tk.vec); ok {
			r.Sample(map[string]string{"part": "line", "type": tk.t.name, "case": tk.t.describe(tk.vec), "line": line})
		}
	}
	const chunk = 512
	nchunks := (len(tasks) + chunk - 1) / chunk
	var distinct sync.Map
	vlib.ParallelFor(nchunks, func(ci int) {
		lo, hi := ci*chunk, (ci+1)*chunk
		if hi > len(tasks) {
			hi = len(tasks)
		}
		for _, tk := range tasks[lo:hi] {
			line, ok := tk.t.line(tk.vec)
			if !ok {
				atomic.AddInt64(&st.skipped, 1)
				continue
			}
			ts := st.perType[tk.t.name]
			atomic.AddInt64(&ts.Lines, 1)
			_, dup := distinct.LoadOrStore(line, true)
			if !dup {
				atomic.AddInt64(&st.distinct, 1)
			}
			changed := false
			for _, c := range cfgs {
				o := evalLine(line, c)
				atomic.AddInt64(&st.evals, 1)
				atomic.AddInt64(&ts.Evals, 1)
				if o.nrecords > 0 {
					atomic.AddInt64(&st.records, 1)
				}
				switch o.kind {
				case "":
					atomic.AddInt64(&st.ok, 1)
					if o.t1 != line {
						changed = true
					}
				case kRejected:
					atomic.AddInt64(&st.rejected, 1)
					atomic.AddInt64(&ts.Rejected, 1)
					st.mu.Lock()
					st.rejectedPerType[tk.t.name]++
					st.mu.Unlock()
					st.noteRejected(tk.t, tk.vec, line, c, o.detail)
				default:
					atomic.AddInt64(&st.failing, 1)
					atomic.AddInt64(&ts.Failing, 1)
					if o.t1 != line {
						changed = true
					}
					m := minimise(tk.t, tk.vec, c, o.kind, &st.minimEvals)
					key := "line/" + o.kind + "/" + tk.t.name + "/" + tk.t.describe(m)
					st.mu.Lock()
					f := st.findings[key]
					if f == nil {
						f = &finding{t: tk.t, vec: m, kind: o.kind, cfgs: map[string]bool{}}
						st.findings[key] = f
					}
					f.cfgs[c.String()] = true
					f.cases++
					st.mu.Unlock()
				}
			}
			if changed && !dup {
				atomic.AddInt64(&st.nontrivial, 1)
			}
		}
	})
	return st
}

// noteRejected keeps, per type, the rejected cases described by their MINIMAL
// description (only single-coordinate descriptions are interesting as a
// summary, so keep the shortest few).
func (st *lineStats) noteRejected(t *ltype, vec []uint8, line string, c cfg, why string) {
	nb := 0
	for _, v := range vec {
		if v != 0 {
			nb++
		}
	}
	if nb > 1 {
		return
	}
	s := fmt.Sprintf("%s [%s] %q: %s", t.describe(vec), c, line, why)
	st.mu.Lock()
	defer st.mu.Unlock()
	l := st.rejectedSamples[t.name]
	for _, x := range l {
		if x == s {
			return
		}
	}
	st.rejectedSamples[t.name] = append(l, s)
}

// report turns the aggregated findings into violations (deterministic order and detail).
func (st *lineStats) report(r *vlib.Run) {
	keys := make([]string, 0, len(st.findings))
	for k := range st.findings {
		keys = append(keys, k)
	}
	sort.Strings(keys)
	for _, k := range keys {
		f := st.findings[k]
		var cl []string
		for _, c := range cfgs {
			if f.cfgs[c.String()] {
				cl = append(cl, c.String())
			}
		}
		cs := strings.Join(cl, "+")
		if len(cl) == len(cfgs) {
			cs = "all"
		}
		line, _ := f.t.line(f.vec)
		var first cfg
		for _, c := range cfgs {
			if f.cfgs[c.String()] {
				first = c
				break
			}
		}
		o := evalLine(line, first)
		detail := o.detail
		if o.kind != f.kind {
			detail = fmt.Sprintf("line %q [%s]: minimal case re-evaluates to %q (%s)", line, first, o.kind, o.detail)
		}
		detail += fmt.Sprintf("\n minimal case: %s %s; codec configurations failing: %s; enumerated failing evaluations reduced to this case: %d", f.t.name, f.t.describe(f.vec), cs, f.cases)
		debugf("violation %s", k+"/"+cs)
		r.Violate(k+"/"+cs, detail, map[string]interface{}{"part": "line", "line": line, "configs": cl, "normal_form": o.t1, "kind": f.kind})
	}
}
