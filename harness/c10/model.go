package main

// Configurations (data files) and the reference model of C10. The model is
// written from the property statement only: a brute-force longest-prefix
// match over the subnets the generator declared, in the client's own address
// family. It shares no code with /repo and never parses data-file text (the
// generator emits the text and the structure side by side).

import (
	"fmt"
	"net"
	"sort"
	"strings"
)

// decl is one declared subnet ('%' line) of a map.
type decl struct {
	fam  int    // 1 = IPv4, 2 = IPv6 (the ECS family numbers)
	ip   net.IP // 4 or 16 bytes, network address
	plen int
	loc  string // two-character location id
}

func (d decl) text() string { return fmt.Sprintf("%s/%d", d.ip.String(), d.plen) }

func mkdecl(cidr, loc string) decl {
	ip, n, err := net.ParseCIDR(cidr)
	if err != nil {
		panic(err)
	}
	pl, bits := n.Mask.Size()
	d := decl{plen: pl, loc: loc}
	if bits == 32 && ip.To4() != nil {
		d.fam, d.ip = 1, n.IP.To4()
	} else {
		d.fam, d.ip = 2, n.IP.To16()
	}
	return d
}

// config is one data file, described structurally.
type config struct {
	id   string
	has8 bool   // names of the "mapped" zone (and other.org) select client-subnet map c1
	ecs  []decl // subnets of map c1
	hasM bool   // names of both zones select resolver map m1
	res  []decl // subnets of map m1
}

// Locations and the A record each one owns at www.<zone>; "" is the untagged record.
var locAddr = map[string]string{
	"":   "192.0.2.1",
	"aa": "192.0.2.2", "bb": "192.0.2.3", "cc": "192.0.2.4", "ee": "192.0.2.5", "ff": "192.0.2.12",
	"d4": "192.0.2.6", "d6": "192.0.2.7", "h4": "192.0.2.8", "h6": "192.0.2.9",
	"r4": "192.0.2.10", "r6": "192.0.2.11",
}

func sortedLocs() []string {
	var l []string
	for k := range locAddr {
		l = append(l, k)
	}
	sort.Strings(l)
	return l
}

var (
	nested4 = []decl{mkdecl("10.0.0.0/8", "aa"), mkdecl("10.1.0.0/16", "bb"), mkdecl("10.1.1.0/24", "cc"), mkdecl("10.1.1.0/25", "ee")}
	nested6 = []decl{mkdecl("2001:db8::/32", "aa"), mkdecl("2001:db8:1::/48", "bb"), mkdecl("2001:db8:1::/56", "ee"), mkdecl("2001:db8:1:1::/64", "cc")}
	def4    = mkdecl("0.0.0.0/0", "d4")
	def6    = mkdecl("::/0", "d6")
	host4   = mkdecl("10.1.1.1/32", "h4")
	host6   = mkdecl("2001:db8:1:1::1/128", "h6")
	resMap  = []decl{mkdecl("10.0.0.0/8", "r4"), mkdecl("2001:db8::/32", "r6")}
)

func cat(a ...[]decl) []decl {
	var o []decl
	for _, x := range a {
		o = append(o, x...)
	}
	return o
}

// ecsSets are the client-subnet map contents, simplest first.
var ecsSets = []struct {
	id   string
	has8 bool
	set  []decl
}{
	{"no8", false, nil},
	{"8empty", true, nil},
	{"8v4def", true, []decl{def4}},
	{"8v6def", true, []decl{def6}},
	{"8bothdef", true, []decl{def4, def6}},
	{"8hosts", true, []decl{host4, host6}},
	{"8nested", true, cat(nested4, nested6)},
	{"8nested4", true, nested4},
	{"8nested6", true, nested6},
	{"8nested+def", true, cat(nested4, nested6, []decl{def4, def6})},
	{"8nested+hosts", true, cat(nested4, nested6, []decl{host4, host6})},
	{"8nested4+v6def", true, cat(nested4, []decl{def6})},
	{"8nested6+v4def", true, cat(nested6, []decl{def4})},
}

func buildConfigs() []config {
	var out []config
	for _, s := range ecsSets {
		for _, m := range []bool{false, true} {
			c := config{id: s.id, has8: s.has8, ecs: s.set, hasM: m}
			if m {
				c.id += "-M"
				c.res = resMap
			} else {
				c.id += "-noM"
			}
			out = append(out, c)
		}
	}
	return out
}

// Zones: "mapped" names select c1 when the configuration has an '8' map;
// "unmapped" names never do (they do select m1 when it exists).
const (
	zoneMapped   = "example.com"
	zoneUnmapped = "example.net"
	refusedMap   = "other.org"
	refusedNoMap = "unmapped.org"
)

// text renders the data file of a configuration.
func (c *config) text() string {
	var sb strings.Builder
	for _, z := range []string{zoneMapped, zoneUnmapped} {
		fmt.Fprintf(&sb, "Z%s,a.ns.%s,dns.%s,123,7200,1800,604800,120,120,,\n", z, z, z)
		fmt.Fprintf(&sb, "&%s,,a.ns.%s,172800,,\n", z, z)
		fmt.Fprintf(&sb, "+a.ns.%s,192.0.2.53,300,,,1\n", z)
		fmt.Fprintf(&sb, "&deleg.%s,,ns.elsewhere.org,172800,,\n", z)
		for _, l := range sortedLocs() {
			fmt.Fprintf(&sb, "+www.%s,%s,300,,%s,1\n", z, locAddr[l], l)
		}
	}
	if c.has8 {
		fmt.Fprintf(&sb, "8%s,c1\n8*.%s,c1\n8%s,c1\n", zoneMapped, zoneMapped, refusedMap)
	}
	if c.hasM {
		for _, z := range []string{zoneMapped, zoneUnmapped} {
			fmt.Fprintf(&sb, "M%s,m1\nM*.%s,m1\n", z, z)
		}
		fmt.Fprintf(&sb, "M%s,m1\nM%s,m1\n", refusedMap, refusedNoMap)
	}
	for _, d := range c.ecs {
		fmt.Fprintf(&sb, "%%%s,%s,c1\n", d.loc, d.text())
	}
	for _, d := range c.res {
		fmt.Fprintf(&sb, "%%%s,%s,m1\n", d.loc, d.text())
	}
	return sb.String()
}

// prefixContains reports whether the first plen bits of a and b agree.
func prefixContains(a, b net.IP, plen int) bool {
	for i := 0; i < plen; i++ {
		if (a[i/8]>>(7-uint(i%8)))&1 != (b[i/8]>>(7-uint(i%8)))&1 {
			return false
		}
	}
	return true
}

// lpm is the brute-force longest-prefix match of the statement: the longest
// declared subnet of the client's family that contains the client network
// (addr/src) and is not longer than it; nil if none.
func lpm(set []decl, fam int, addr net.IP, src int) *decl {
	if fam == 2 && isMapped(addr) && src >= 96 {
		return lpmMapped(set, addr, src)
	}
	var best *decl
	for i := range set {
		d := &set[i]
		if d.fam != fam || d.plen > src || !prefixContains(d.ip, addr, d.plen) {
			continue
		}
		if best == nil || d.plen > best.plen {
			best = d
		}
	}
	return best
}

var v4prefix = net.IP{0, 0, 0, 0, 0, 0, 0, 0, 0, 0, 0xff, 0xff}

func isMapped(a net.IP) bool { return len(a) == 16 && a[:12].Equal(v4prefix) }

// lpmMapped: an IPv6-family client network inside ::ffff:0:0/96 is the IPv4 network addr[12:]/(src-96); the
// declared subnets of its address family are the IPv4 ones (held by every store at ::ffff:a.b.c.d/(96+n)).
// The returned decl carries the length in the client's (IPv6) option family.
func lpmMapped(set []decl, addr net.IP, src int) *decl {
	var best *decl
	for i := range set {
		d := set[i]
		if d.fam != 1 {
			// every store treats ::ffff:0:0/96 as IPv4 space that IPv6 subnets (::/0 included) do not cover: the
			// rearranger restarts the range table there and the CDB lookup skips IPv6-only prefix lengths
			continue
		}
		d = decl{fam: 2, ip: append(append(net.IP{}, v4prefix...), d.ip...), plen: d.plen + 96, loc: d.loc}
		if d.plen > src || !prefixContains(d.ip, addr, d.plen) {
			continue
		}
		if best == nil || d.plen > best.plen {
			dd := d
			best = &dd
		}
	}
	return best
}

// expectation is what the statement demands of the response to one query.
type expectation struct {
	opt      bool
	ecs      bool
	scope    int    // meaningful when ecs && judgeScope
	loc      string // location that decides the answer ("" = none)
	decider  string // explanation
	nontriv  bool
	judgeLoc bool
}

func famBits(fam int) int {
	if fam == 1 {
		return 32
	}
	return 128
}

func expect(c *config, q *query) expectation {
	e := expectation{opt: q.form != formNoEDNS, ecs: q.ecs != nil}
	nameHas8 := c.has8 && q.mapped
	decided := false
	if q.ecs != nil {
		switch {
		case !nameHas8:
			e.scope = 0
			e.decider = "name has no client-subnet map: scope 0"
		default:
			e.nontriv = true
			if m := lpm(c.ecs, int(q.ecs.fam), q.ecs.addr, int(q.ecs.src)); m != nil {
				e.scope = m.plen
				e.loc = m.loc
				decided = true
				e.decider = fmt.Sprintf("client subnet matches declared %s -> %s", m.text(), m.loc)
			} else if q.ecs.fam == 1 {
				e.scope = 24
				e.decider = "client-subnet map has no matching subnet: default scope 24"
			} else {
				e.scope = 48
				e.decider = "client-subnet map has no matching subnet: default scope 48"
			}
		}
	}
	if !decided {
		if c.hasM {
			rip := net.ParseIP(q.resolver)
			fam := 2
			if v4 := rip.To4(); v4 != nil {
				fam, rip = 1, v4
			}
			if m := lpm(c.res, fam, rip, famBits(fam)); m != nil {
				e.loc = m.loc
				e.decider += fmt.Sprintf("; resolver %s matches %s -> %s", q.resolver, m.text(), m.loc)
				e.nontriv = true
			} else {
				e.decider += "; resolver matches nothing"
			}
		} else {
			e.decider += "; no resolver map"
		}
	}
	e.judgeLoc = q.class == classPositive
	return e
}

// expectedAnswer is the set of A records a client of location loc sees at www.
func expectedAnswer(loc string) []string {
	s := []string{locAddr[""]}
	if loc != "" {
		s = append(s, locAddr[loc])
	}
	sort.Strings(s)
	return s
}
