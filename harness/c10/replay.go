package main

// --replay <file>: re-run the single case of a replay artefact against the
// current tree and print what the handler answers and what the model wants.

import (
	"encoding/hex"
	"encoding/json"
	"fmt"
	"os"

	"github.com/facebookincubator/dns/dnsrocks/db"
	"github.com/facebookincubator/dns/dnsrocks/dnsserver"
	"github.com/miekg/dns"

	"verifharness/dnsfix"
	"verifharness/vlib"
)

type replayFile struct {
	Fingerprint string `json:"fingerprint"`
	Replay      struct {
		Backend  string `json:"backend"`
		Store    string `json:"store"`
		Config   string `json:"config"`
		Data     string `json:"data"`
		Cache    bool   `json:"cache"`
		Path     string `json:"path"`
		Query    string `json:"query"`
		WireHex  string `json:"query_wire_hex"`
		Resolver string `json:"resolver"`
		Kind     string `json:"kind"`
	} `json:"replay"`
}

func runReplay(dir, path string) {
	b, err := os.ReadFile(path)
	if err != nil {
		vlib.Infra("replay: %v", err)
	}
	var rf replayFile
	if err := json.Unmarshal(b, &rf); err != nil {
		vlib.Infra("replay: %v", err)
	}
	var backend dnsfix.Backend = -1
	for _, x := range dnsfix.Backends {
		if x.String() == rf.Replay.Backend {
			backend = x
		}
	}
	if backend < 0 {
		vlib.Infra("replay: unknown backend %q", rf.Replay.Backend)
	}
	wire, err := hex.DecodeString(rf.Replay.WireHex)
	if err != nil {
		vlib.Infra("replay: %v", err)
	}
	var cfg *config
	configs := buildConfigs()
	for i := range configs {
		if configs[i].id == rf.Replay.Config {
			cfg = &configs[i]
		}
	}
	var q *query
	for _, x := range buildQueries(buildECSVariants(true), true) {
		if x.id() == rf.Replay.Query {
			q = x
		}
	}
	db.SeparateBitMap = rf.Replay.Store == storeCDBPerFamily
	p, err := dnsfix.Compile(dir, backend, []byte(rf.Replay.Data))
	if err != nil {
		vlib.Infra("replay: compile: %v", err)
	}
	opts := dnsfix.HandlerOpts{}
	if rf.Replay.Cache {
		opts.Cache = dnsserver.CacheConfig{Enabled: true, LRUSize: cacheLRUSize, WRSTimeout: cacheWRSTimeout}
	}
	h, err := dnsfix.OpenHandler(backend, p, opts)
	if err != nil {
		vlib.Infra("replay: open: %v", err)
	}
	defer h.Close()
	asks := 1
	if rf.Replay.Path == pathCacheSecond {
		asks = 2
	}
	fmt.Printf("replaying %s\n", rf.Fingerprint)
	still := false
	for i := 0; i < asks; i++ {
		m := new(dns.Msg)
		if err := m.Unpack(wire); err != nil {
			vlib.Infra("replay: %v", err)
		}
		fmt.Printf("ask %d query:\n%s\n", i+1, dnsfix.Canon(m))
		res := h.Serve(m, rf.Replay.Resolver, false, maxAnswers)
		o := observe(res)
		fmt.Printf("ask %d response:\n%s\n", i+1, dnsfix.CanonResult(res))
		if cfg != nil && q != nil && i == asks-1 {
			e := expect(cfg, q)
			fmt.Printf("model: %s (opt=%v ecs=%v scope=%d location=%s)\n", e.decider, e.opt, e.ecs, e.scope, locName(e.loc))
			for _, v := range judge(q, e, o) {
				fmt.Printf("DISAGREES [%s]: %s\n", v.kind, v.text)
				if v.kind == rf.Replay.Kind {
					still = true
				}
			}
		}
	}
	if still {
		fmt.Println("the recorded disagreement is still present")
	} else {
		fmt.Println("the recorded disagreement is not reproduced on this tree")
	}
}
