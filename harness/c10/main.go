// C10: EDNS Client Subnet is echoed faithfully with a truthful scope.
//
// Small-scope enumeration: every query of a bounded query space (EDNS forms x
// ECS family / source length / address x response class x zone x resolver) is
// sent through the REAL handler (dnsserver.FBDNSDB.ServeDNS) opened on REAL
// databases compiled by the real compilers (CDB, RocksDB v1 keys, RocksDB v2
// keys) from every configuration of a bounded configuration space, with the
// response cache off and on (every query asked twice when it is on). The
// response is packed and unpacked again and compared with what the statement
// demands, computed by an independent brute-force longest-prefix model.
package main

import (
	"net"
	"fmt"
	"os"
	"runtime/pprof"
	"sort"
	"strings"
	"sync"
	"sync/atomic"
	"time"

	"github.com/facebookincubator/dns/dnsrocks/db"
	"github.com/facebookincubator/dns/dnsrocks/dnsserver"
	"github.com/miekg/dns"

	"verifharness/dnsfix"
	"verifharness/vlib"
)

// kinds of disagreement, in order of precedence within one response
const (
	kOptMissing      = "opt-missing"
	kOptUnexpected   = "opt-unexpected"
	kEcsMissing      = "ecs-missing"
	kEcsUnexpected   = "ecs-unexpected"
	kEcsDuplicated   = "ecs-duplicated"
	kEcsAltered      = "ecs-altered"
	kScopeOverflow   = "scope-overflow"
	kScopeWrong      = "scope-wrong"
	kLocationWrong   = "location-wrong"
	kUnpackable      = "unpackable"
	kPanic           = "panic"
	pathNoCache      = "nocache"
	pathCacheFirst   = "cache-first"
	pathCacheSecond  = "cache-second"
	maxAnswers       = 16
	cacheWRSTimeout  = 1000
	cacheLRUSize     = 1 << 16
	maxGroupExamples = 3
)

var pathOrder = map[string]int{pathNoCache: 0, pathCacheFirst: 1, pathCacheSecond: 2}

// countingStats counts the counters the harness wants to observe.
type countingStats struct {
	hits, misses int64
}

func (s *countingStats) ResetCounterTo(string, int64)     {}
func (s *countingStats) ResetCounter(string)              {}
func (s *countingStats) IncrementCounterBy(string, int64) {}
func (s *countingStats) AddSample(string, int64)          {}
func (s *countingStats) IncrementCounter(key string) {
	switch key {
	case "DNS_cache.hit":
		s.hits++
	case "DNS_cache.missed":
		s.misses++
	}
}

// finding is one failing (query, path) of one unit, before minimisation.
type finding struct {
	group   string // backend/kind/config/class/shape: one report per group
	cfgOrd  int
	path    string
	qOrd    int
	fp      string
	detail  string
	replay  map[string]interface{}
	count   int64 // failing cases in the group (filled by the merge)
	example []string
}

type unit struct {
	cfg     *config
	cfgOrd  int
	backend dnsfix.Backend
	store   string // name of the storage configuration in fingerprints
	cache   bool
}

// storeCDBPerFamily is CDB read with db.SeparateBitMap (per-family prefix-length sets).
const storeCDBPerFamily = "cdb-perfamily"

type counters struct {
	serves, evals, nontrivial, cases, failing int64
	hits, noResponse, unexpectedRcode         int64
	ecsQueries, matchedSubnet, defaultScope   int64
	locJudged, locNonEmpty                    int64
	dbs, handlers                             int64
}

type observed struct {
	panicked   interface{}
	noResponse bool
	packErr    error
	wireErr    error // the packed response is rejected by dns.Msg.Unpack
	rcode      int
	opt        *dns.OPT
	ecs        []*dns.EDNS0_SUBNET
	answers    []string
	msg        *dns.Msg // the message that was judged (rendered only when needed)
}

func (o *observed) canon() string {
	if o.panicked != nil {
		return fmt.Sprintf("<PANIC %v>", o.panicked)
	}
	return dnsfix.Canon(o.msg)
}

func observe(res dnsfix.Result) observed {
	var o observed
	if res.Panicked != nil {
		o.panicked = res.Panicked
		return o
	}
	if len(res.Msgs) == 0 {
		o.noResponse = true
		return o
	}
	b, err := res.Msgs[0].Pack()
	if err != nil {
		o.packErr = err
		o.msg = res.Msgs[0]
		return o
	}
	m := new(dns.Msg)
	if err := m.Unpack(b); err != nil {
		// The bytes on the wire are rejected by a (miekg) client. Judge the
		// message the handler wrote, and remember the rejection.
		o.wireErr = err
		m = res.Msgs[0]
	}
	o.rcode = m.Rcode
	o.opt = m.IsEdns0()
	if o.opt != nil {
		// the extended rcode lives in the OPT
		o.rcode = m.Rcode
		for _, e := range o.opt.Option {
			if s, ok := e.(*dns.EDNS0_SUBNET); ok {
				o.ecs = append(o.ecs, s)
			}
		}
	}
	for _, rr := range m.Answer {
		if a, ok := rr.(*dns.A); ok {
			o.answers = append(o.answers, a.A.String())
		}
	}
	sort.Strings(o.answers)
	o.msg = m
	return o
}

var expectedRcode = [nClasses]int{dns.RcodeSuccess, dns.RcodeSuccess, dns.RcodeNameError, dns.RcodeSuccess, dns.RcodeRefused, dns.RcodeBadVers}

type verdict struct {
	kind  string
	shape string // part of the group key: what was wanted / got, abstracted from the query
	text  string
}

// judge compares one observation with the expectation; it returns every
// disagreement (at most one per aspect: OPT, ECS presence, ECS identity, scope, location).
func judge(q *query, e expectation, o observed) []verdict {
	var v []verdict
	if o.panicked != nil {
		return []verdict{{kPanic, "", fmt.Sprintf("ServeDNS panicked: %v", o.panicked)}}
	}
	if o.packErr != nil {
		return []verdict{{kUnpackable, "", fmt.Sprintf("response cannot be put on the wire: %v", o.packErr)}}
	}
	if e.opt && o.opt == nil {
		return []verdict{{kOptMissing, "", "query had an OPT record, response has none"}}
	}
	if !e.opt && o.opt != nil {
		return []verdict{{kOptUnexpected, "", "query had no OPT record, response has one"}}
	}
	switch {
	case e.ecs && len(o.ecs) == 0:
		v = append(v, verdict{kEcsMissing, fmt.Sprintf("fam%d", q.ecs.fam), "query had a client-subnet option, response has none"})
	case !e.ecs && len(o.ecs) > 0:
		v = append(v, verdict{kEcsUnexpected, "", "query had no client-subnet option, response has one"})
	case e.ecs && len(o.ecs) > 1:
		v = append(v, verdict{kEcsDuplicated, fmt.Sprintf("fam%d", q.ecs.fam), fmt.Sprintf("response has %d client-subnet options", len(o.ecs))})
	case e.ecs:
		g := o.ecs[0]
		var diffs []string
		if g.Family != q.ecs.fam {
			diffs = append(diffs, "family")
		}
		if g.SourceNetmask != q.ecs.src {
			diffs = append(diffs, "source")
		}
		if !g.Address.Equal(q.ecs.addr) {
			diffs = append(diffs, "address")
		}
		if len(diffs) > 0 {
			v = append(v, verdict{kEcsAltered, fmt.Sprintf("fam%d:%s", q.ecs.fam, strings.Join(diffs, "+")),
				fmt.Sprintf("client-subnet option altered (%s): sent family=%d source=%d address=%s, got family=%d source=%d address=%s",
					strings.Join(diffs, "+"), q.ecs.fam, q.ecs.src, q.ecs.addr, g.Family, g.SourceNetmask, g.Address)})
		}
		if q.class != classBadVers { // a BADVERS reply is produced before any lookup: only presence and identity are judged
			got := int(g.SourceScope)
			if got > famBits(int(q.ecs.fam)) {
				v = append(v, verdict{kScopeOverflow, fmt.Sprintf("fam%d:want%d:got%d", q.ecs.fam, e.scope, got),
					fmt.Sprintf("scope prefix length %d exceeds %d (family %d); the statement wants %d", got, famBits(int(q.ecs.fam)), q.ecs.fam, e.scope)})
			} else if got != e.scope {
				v = append(v, verdict{kScopeWrong, fmt.Sprintf("fam%d:want%d:got%d", q.ecs.fam, e.scope, got),
					fmt.Sprintf("scope prefix length %d, the statement wants %d", got, e.scope)})
			}
		}
	}
	if o.wireErr != nil {
		if len(v) == 0 {
			v = append(v, verdict{kUnpackable, "", fmt.Sprintf("the packed response is rejected by dns.Msg.Unpack: %v", o.wireErr)})
		} else {
			for i := range v {
				v[i].text += fmt.Sprintf(" (a miekg client rejects the packed response: %v)", o.wireErr)
			}
		}
	}
	if e.judgeLoc && o.rcode == dns.RcodeSuccess {
		want := expectedAnswer(e.loc)
		if strings.Join(want, ",") != strings.Join(o.answers, ",") {
			by := "resolver"
			if q.ecs != nil {
				by = fmt.Sprintf("fam%d", q.ecs.fam)
			}
			v = append(v, verdict{kLocationWrong, fmt.Sprintf("%s:want=%s:got=%s", by, locName(e.loc), answersToLocs(o.answers)),
				fmt.Sprintf("answer comes from the wrong location: A records %v, the statement wants %v (location %s)", o.answers, want, locName(e.loc))})
		}
	}
	return v
}

func locName(l string) string {
	if l == "" {
		return "none"
	}
	return l
}

func answersToLocs(a []string) string {
	var l []string
	for _, x := range a {
		found := false
		for _, k := range sortedLocs() {
			if locAddr[k] == x {
				if k != "" {
					l = append(l, k)
				}
				found = true
			}
		}
		if !found {
			l = append(l, x)
		}
	}
	if len(l) == 0 {
		return "none"
	}
	return strings.Join(l, "+")
}

// serve sends one query through the real handler.
func serve(h *dnsfix.Handler, q *query, wire []byte) dnsfix.Result {
	m := new(dns.Msg)
	if err := m.Unpack(wire); err != nil {
		panic(fmt.Sprintf("query %s does not unpack: %v", q.id(), err))
	}
	if q.ecs != nil && q.ecs.raw != nil {
		// what unpacking a wire option with stray address bits yields (the packer above had masked them)
		if o := m.IsEdns0(); o != nil {
			for _, x := range o.Option {
				if s, ok := x.(*dns.EDNS0_SUBNET); ok {
					s.Address = append(net.IP(nil), q.ecs.raw.To16()...)
				}
			}
		}
	}
	return h.Serve(m, q.resolver, false, maxAnswers)
}

// runPair compiles one configuration for one backend and runs it with the
// cache off and then on (two handlers, one after the other, on one database).
func runPair(r *vlib.Run, dir string, u unit, queries []*query, wires [][]byte, cnt *counters) []*finding {
	t0 := time.Now()
	text := u.cfg.text()
	path, err := dnsfix.Compile(dir, u.backend, []byte(text))
	if err != nil {
		vlib.Infra("configuration %s does not compile for %s: %v", u.cfg.id, u.backend, err)
	}
	defer os.RemoveAll(path)
	atomic.AddInt64(&cnt.dbs, 1)
	if os.Getenv("C10_TIMING") != "" { // debugging aid; no effect on coverage or verdicts
		fmt.Fprintf(os.Stderr, "unit %s %s: compiled after %v\n", u.cfg.id, u.backend, time.Since(t0))
	}
	var out []*finding
	for _, cache := range []bool{false, true} {
		u.cache = cache
		out = append(out, runUnit(r, path, text, u, queries, wires, cnt)...)
	}
	if os.Getenv("C10_TIMING") != "" {
		fmt.Fprintf(os.Stderr, "unit %s %s: done after %v\n", u.cfg.id, u.backend, time.Since(t0))
	}
	return out
}

func runUnit(r *vlib.Run, path, text string, u unit, queries []*query, wires [][]byte, cnt *counters) []*finding {
	st := &countingStats{}
	opts := dnsfix.HandlerOpts{Stats: st}
	if u.cache {
		opts.Cache = dnsserver.CacheConfig{Enabled: true, LRUSize: cacheLRUSize, WRSTimeout: cacheWRSTimeout}
	}
	h, err := dnsfix.OpenHandler(u.backend, path, opts)
	if err != nil {
		vlib.Infra("cannot open handler on %s (%s): %v", u.cfg.id, u.backend, err)
	}
	defer h.Close()
	atomic.AddInt64(&cnt.handlers, 1)

	groups := map[string]*finding{}
	var order []string
	var c counters
	paths := []string{pathNoCache}
	if u.cache {
		paths = []string{pathCacheFirst, pathCacheSecond}
	}
	for qi, q := range queries {
		e := expect(u.cfg, q)
		for _, p := range paths {
			hitsBefore := st.hits
			res := serve(h, q, wires[qi])
			c.serves++
			if p == pathCacheSecond && st.hits > hitsBefore {
				c.hits++
			}
			o := observe(res)
			c.cases++
			if o.noResponse {
				c.noResponse++
				continue
			}
			if o.panicked == nil && o.packErr == nil && o.rcode != expectedRcode[q.class] {
				c.unexpectedRcode++
			}
			c.evals++
			if e.nontriv {
				c.nontrivial++
			}
			if q.ecs != nil && p != pathCacheSecond {
				c.ecsQueries++
				if strings.HasPrefix(e.decider, "client subnet matches") {
					c.matchedSubnet++
				} else if strings.Contains(e.decider, "default scope") {
					c.defaultScope++
				}
			}
			if e.judgeLoc {
				c.locJudged++
				if e.loc != "" {
					c.locNonEmpty++
				}
			}
			vs := judge(q, e, o)
			if len(vs) > 0 {
				c.failing++
			}
			for _, v := range vs {
				g := fmt.Sprintf("%s/%s/%s/%s/%s", u.store, v.kind, u.cfg.id, classNames[q.class], v.shape)
				f := groups[g]
				if f == nil {
					f = &finding{group: g, cfgOrd: u.cfgOrd, path: p, qOrd: q.ord,
						fp:     fmt.Sprintf("ecs/%s/%s/%s/%s/%s@%s", u.store, v.kind, u.cfg.id, classNames[q.class], q.id(), p),
						detail: fmt.Sprintf("%s\nconfiguration %s on %s, path %s, query %s %s from %s with %s\nmodel: %s\nresponse: %s", v.text, u.cfg.id, u.store, p, q.name, dns.TypeToString[q.qtype], q.resolver, q.formID(), e.decider, o.canon()),
						replay: map[string]interface{}{"backend": u.backend.String(), "store": u.store, "config": u.cfg.id, "data": text, "cache": u.cache, "path": p,
							"query": q.id(), "query_wire_hex": fmt.Sprintf("%x", wires[qi]), "resolver": q.resolver, "kind": v.kind, "expected": fmt.Sprintf("%+v", e), "response": o.canon()}}
					groups[g] = f
					order = append(order, g)
				}
				f.count++
				if len(f.example) < maxGroupExamples {
					f.example = append(f.example, q.id()+"@"+p)
				}
			}
			if c.cases&(c.cases-1) == 0 && !u.cache && u.store == "cdb" && u.cfg.id == "8nested+def-M" {
				r.Sample(map[string]string{"config": u.cfg.id, "backend": u.backend.String(), "path": p, "query": q.id(), "model": e.decider,
					"want_scope": fmt.Sprint(e.scope), "response": o.canon()})
			}
		}
	}
	atomic.AddInt64(&cnt.serves, c.serves)
	atomic.AddInt64(&cnt.evals, c.evals)
	atomic.AddInt64(&cnt.nontrivial, c.nontrivial)
	atomic.AddInt64(&cnt.cases, c.cases)
	atomic.AddInt64(&cnt.failing, c.failing)
	atomic.AddInt64(&cnt.hits, c.hits)
	atomic.AddInt64(&cnt.noResponse, c.noResponse)
	atomic.AddInt64(&cnt.unexpectedRcode, c.unexpectedRcode)
	atomic.AddInt64(&cnt.ecsQueries, c.ecsQueries)
	atomic.AddInt64(&cnt.matchedSubnet, c.matchedSubnet)
	atomic.AddInt64(&cnt.defaultScope, c.defaultScope)
	atomic.AddInt64(&cnt.locJudged, c.locJudged)
	atomic.AddInt64(&cnt.locNonEmpty, c.locNonEmpty)
	out := make([]*finding, 0, len(order))
	for _, g := range order {
		out = append(out, groups[g])
	}
	return out
}

func main() {
	r := vlib.Start("C10")
	dir, clean := vlib.Scratch("c10")
	dnsfix.Quiet(dir)
	for i, a := range os.Args {
		if a == "--replay" && i+1 < len(os.Args) {
			runReplay(dir, os.Args[i+1])
			clean()
			os.Exit(0)
		}
	}

	if pf := os.Getenv("C10_PROF"); pf != "" { // debugging aid
		f, _ := os.Create(pf)
		pprof.StartCPUProfile(f)
		defer pprof.StopCPUProfile()
	}
	configs := buildConfigs()
	if only := os.Getenv("C10_CONFIG"); only != "" { // debugging aid
		var f []config
		for _, c := range configs {
			if c.id == only {
				f = append(f, c)
			}
		}
		configs = f
	}
	vars := buildECSVariants(r.Thorough())
	queries := buildQueries(vars, r.Thorough())
	wires := make([][]byte, len(queries))
	for i, q := range queries {
		wires[i] = q.wire()
	}

	var units, units2 []unit
	for ci := range configs {
		for _, b := range dnsfix.Backends {
			units = append(units, unit{cfg: &configs[ci], cfgOrd: ci, backend: b, store: b.String()})
		}
		units2 = append(units2, unit{cfg: &configs[ci], cfgOrd: ci, backend: dnsfix.CDB, store: storeCDBPerFamily})
	}
	var cnt counters
	results := make([][]*finding, len(units)+len(units2))
	db.SeparateBitMap = false
	vlib.ParallelFor(len(units), func(i int) {
		results[i] = runPair(r, dir, units[i], queries, wires, &cnt)
	})
	// Second phase: the same CDB files read through the per-family prefix-length
	// sets (FBDNS_SEPARATE_MASKLENS); the switch is a package variable, so the
	// phases do not overlap.
	db.SeparateBitMap = true
	vlib.ParallelFor(len(units2), func(i int) {
		results[len(units)+i] = runPair(r, dir, units2[i], queries, wires, &cnt)
	})
	db.SeparateBitMap = false
	clean()

	// Minimisation across units: one report per (backend, kind, configuration,
	// class, shape) group: the first failing case in the order no-cache <
	// cache-first < cache-second, then query order.
	merged := map[string]*finding{}
	var mu sync.Mutex
	for _, fs := range results {
		for _, f := range fs {
			mu.Lock()
			m := merged[f.group]
			switch {
			case m == nil:
				merged[f.group] = f
			case pathOrder[f.path] < pathOrder[m.path] || (pathOrder[f.path] == pathOrder[m.path] && f.qOrd < m.qOrd):
				f.count += m.count
				merged[f.group] = f
			default:
				m.count += f.count
			}
			mu.Unlock()
		}
	}
	gs := make([]string, 0, len(merged))
	for g := range merged {
		gs = append(gs, g)
	}
	sort.Strings(gs)
	byKind := map[string]int{}
	for _, g := range gs {
		f := merged[g]
		f.replay["failing_cases_in_group"] = f.count
		f.replay["group"] = f.group
		r.Violate(f.fp, fmt.Sprintf("%s\n(%d failing cases share backend/kind/configuration/class and the same wanted/got shape %q; this is the first)", f.detail, f.count, f.group), f.replay)
		byKind[strings.Split(g, "/")[1]]++
	}

	nv4, nv6 := 0, 0
	for _, v := range vars {
		if v.fam == 1 {
			nv4++
		} else {
			nv6++
		}
	}
	var cfgIDs []string
	for _, c := range configs {
		cfgIDs = append(cfgIDs, c.id)
	}
	r.Set("states", cnt.cases)
	r.Set("transitions", cnt.serves)
	r.Set("traces_validated_against_impl", cnt.serves)
	r.Set("evaluations", cnt.evals)
	r.Set("distinct_nontrivial", cnt.nontrivial)
	r.Set("configurations", len(configs))
	r.Set("configuration_ids", strings.Join(cfgIDs, " "))
	r.Set("backends", "cdb rdb-v1 rdb-v2 cdb-perfamily(db.SeparateBitMap)")
	r.Set("databases_compiled", cnt.dbs)
	r.Set("handlers_opened", cnt.handlers)
	r.Set("queries_per_database", len(queries))
	r.Set("ecs_variants_v4", nv4)
	r.Set("ecs_variants_v6", nv6)
	r.Set("edns_forms", strings.Join(formNames[:], " "))
	r.Set("response_classes", strings.Join(classNames[:], " "))
	r.Set("resolvers", strings.Join(resolvers, " "))
	r.Set("second_asks_served_from_cache", cnt.hits)
	r.Set("ecs_cases_expecting_matched_subnet_scope", cnt.matchedSubnet)
	r.Set("ecs_cases_expecting_default_scope", cnt.defaultScope)
	r.Set("ecs_cases", cnt.ecsQueries)
	r.Set("location_judged_cases", cnt.locJudged)
	r.Set("location_judged_cases_expecting_a_location", cnt.locNonEmpty)
	r.Set("failing_cases_before_minimisation", cnt.failing)
	r.Set("cases_without_response_not_judged", cnt.noResponse)
	r.Set("cases_with_unexpected_rcode", cnt.unexpectedRcode)
	kinds := make([]string, 0, len(byKind))
	for k := range byKind {
		kinds = append(kinds, fmt.Sprintf("%s=%d", k, byKind[k]))
	}
	sort.Strings(kinds)
	r.Set("reported_groups_by_kind", strings.Join(kinds, " "))
	if cnt.noResponse > 0 {
		r.Note("%d cases produced no response at all; the statement speaks about responses, so they are counted but not judged here (C13 judges them)", cnt.noResponse)
	}
	if cnt.unexpectedRcode > 0 {
		r.Note("%d cases were answered with an rcode other than the one the response class was built for; OPT/ECS were judged all the same", cnt.unexpectedRcode)
	}
	r.Set("rule", "configurations = 13 client-subnet map contents (no '8' map; '8' map with no subnets / only 0.0.0.0/0 / only ::/0 / both / host /32+/128 / nested 10/8>10.1/16>10.1.1/24>10.1.1.0/25 and 2001:db8::/32>/48>/56>/64, per family and combined, with defaults, with hosts, with the other family's default only) x resolver map absent/present; each compiled by the real compilers to CDB, RocksDB v1 keys, RocksDB v2 keys (and CDB once more read with db.SeparateBitMap, the per-family prefix-length sets) and opened in the real handler with the cache off and on. queries = {no EDNS, EDNS0 without options, cookie, option 65001, ECS, ECS+cookie, cookie+ECS} x ECS variants (family 1: source lengths {0,1,8,9,16,24,25,32}, thorough 0..32; family 2: {0,1,32,48,56,64,128}, thorough 0..128, plus IPv4-mapped addresses ::ffff:a.b.c.d with source lengths {96,104,112,120,121,128}, thorough 96..128; 6/7 base addresses on and off the declared subnets, masked to the source length, scope 0; plus the host addresses 10.1.1.1 and 2001:db8:1:1::1 presented UNMASKED with source lengths {8,16,24,25} / {32,48,56,64}, as a wire message can carry them - the client network is still address/source length) x classes {positive, NODATA, NXDOMAIN, referral, REFUSED, BADVERS (EDNS version 1)} x {zone whose names select the client-subnet map, zone whose names do not} x 3 resolver addresses (in the resolver map v4, outside it, in it v6; the quick tier uses all three only for positive answers, the only class where the resolver is observable, and asks the names without a client-subnet map in the positive and REFUSED classes only; it combines the cookie with the ECS variants of the first base address of each family only). Every query is packed/unpacked, served by FBDNSDB.ServeDNS (max answers 16 so that no random selection happens), the response packed/unpacked and judged: OPT iff query had one; exactly one ECS iff query had one, family/source/address equal; scope = length of the longest declared subnet of the client's family containing the client network and not longer than it (brute force), 24/48 if the name has a map and nothing matches, 0 if the name has no '8' map; positive answers must be the untagged A plus the A of the deciding location (ECS match, else resolver match). With the cache on every query is asked twice in a row (second_asks_served_from_cache counts DNS_cache.hit increments). states = (database, cache mode, query, ask) cases; transitions = ServeDNS calls; evaluations = judged responses; nontrivial = cases where the model expects a scope or location decided by a map. Reported: one minimal (first in order no-cache < first ask < second ask, then query order) case per backend/kind/configuration/class/wanted-got shape.")
	r.Assume = []string{
		"IPv6-family ECS addresses inside ::ffff:0:0/96 (source length >= 96) are judged against the declared IPv4 subnets lifted to ::ffff:a.b.c.d/(96+n), which is how every store keeps them; the scope is expected in the IPv6 family (96+n); mapped addresses with a source length below 96 are not generated",
		"query scope is 0 and addresses are masked to the source length (RFC 7871 well-formed queries)",
		"every '%' line carries a non-empty location; no two '%' lines of one map declare the same subnet",
		"a case without any response is not judged (C13)",
		"BADVERS replies are judged for OPT and ECS presence/identity only (no lookup happens, so no scope is defined)",
		"only the first ECS option of a query is considered (queries carry at most one)",
	}
	pprof.StopCPUProfile()
	r.Finish()
}
