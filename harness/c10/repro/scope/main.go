// Reproducer (repository API only) for: an IPv4 client subnet matching ::/0 on
// CDB, and the scope arithmetic of db.EcsLocation. Run from /verif/harness:
//
//	go run -ldflags=-checklinkname=0 ./c10/repro/scope
package main

import (
	"bytes"
	"fmt"
	"net"
	"os"

	"github.com/facebookincubator/dns/dnsrocks/db"
	"github.com/facebookincubator/dns/dnsrocks/dnsdata/cdb"
	"github.com/miekg/dns"
	gocdb "github.com/repustate/go-cdb"
)

const data = "8example.com,c1\n%d6,::/0,c1\n"

func main() {
	p := os.TempDir() + "/c10-repro.cdb"
	w, _ := gocdb.NewWriter(p)
	if _, err := cdb.CreateCDBFromReader(bytes.NewReader([]byte(data)), w, 1, 1); err != nil {
		panic(err)
	}
	w.Close()
	defer os.Remove(p)
	d, err := db.Open(p, "cdb")
	if err != nil {
		panic(err)
	}
	r, _ := db.NewReader(d)
	defer r.Close()
	ecs := &dns.EDNS0_SUBNET{Code: dns.EDNS0SUBNET, Family: 1, SourceNetmask: 16, Address: net.IPv4(10, 1, 0, 0).To4()}
	loc, err := r.EcsLocation([]byte("\007example\003com\000"), ecs)
	fmt.Printf("loc=%+v err=%v scope=%d (want: no location, scope 24)\n", loc, err, ecs.SourceScope)
	m := new(dns.Msg)
	m.SetQuestion("example.com.", dns.TypeA)
	o := &dns.OPT{Hdr: dns.RR_Header{Name: ".", Rrtype: dns.TypeOPT}}
	o.Option = append(o.Option, ecs)
	m.Extra = append(m.Extra, o)
	_, err = m.Pack()
	fmt.Printf("packing a message with that option: err=%v\n", err)
}
