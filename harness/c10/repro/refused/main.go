// Reproducer (repository API only) for: REFUSED and BADVERS replies carry an
// OPT record but drop the client-subnet option of the query. Run from
// /verif/harness:  go run -ldflags=-checklinkname=0 ./c10/repro/refused
package main

import (
	"bytes"
	"context"
	"fmt"
	"os"
	"time"

	"github.com/coredns/coredns/plugin/pkg/dnstest"
	"github.com/facebookincubator/dns/dnsrocks/dnsdata/cdb"
	"github.com/facebookincubator/dns/dnsrocks/dnsserver"
	"github.com/facebookincubator/dns/dnsrocks/dnsserver/stats"
	"github.com/facebookincubator/dns/dnsrocks/dnsserver/test"
	"github.com/miekg/dns"
	gocdb "github.com/repustate/go-cdb"
)

const data = "Zexample.com,a.ns.example.com,dns.example.com,123,7200,1800,604800,120,120,,\n&example.com,,a.ns.example.com,172800,,\n+www.example.com,192.0.2.1,300,,,1\n"

func ask(h *dnsserver.FBDNSDB, name string, version uint8) {
	req := new(dns.Msg)
	req.SetQuestion(name, dns.TypeA)
	o, _ := dnsserver.MakeOPTWithECS("10.1.1.0/24")
	o.SetUDPSize(4096)
	o.SetVersion(version)
	req.Extra = []dns.RR{o}
	rec := dnstest.NewRecorder(&test.ResponseWriterCustomRemote{RemoteIP: "10.9.9.9"})
	h.ServeDNS(context.Background(), rec, req)
	fmt.Printf("%s EDNS version %d -> rcode %s, OPT: %v\n", name, version, dns.RcodeToString[rec.Msg.Rcode], rec.Msg.IsEdns0())
}

func main() {
	p := os.TempDir() + "/c10-refused.cdb"
	w, _ := gocdb.NewWriter(p)
	if _, err := cdb.CreateCDBFromReader(bytes.NewReader([]byte(data)), w, 1, 1); err != nil {
		panic(err)
	}
	w.Close()
	defer os.Remove(p)
	h, err := dnsserver.NewFBDNSDBBasic(dnsserver.HandlerConfig{}, dnsserver.DBConfig{Path: p, Driver: "cdb", ReloadTimeout: time.Minute},
		dnsserver.CacheConfig{}, &dnsserver.DummyLogger{}, &stats.DummyStats{})
	if err != nil {
		panic(err)
	}
	if err := h.Load(); err != nil {
		panic(err)
	}
	defer h.Close()
	ask(h, "www.example.com.", 0) // positive: OPT with the SUBNET option
	ask(h, "other.org.", 0)       // REFUSED: OPT without the SUBNET option
	ask(h, "www.example.com.", 1) // BADVERS: OPT without the SUBNET option
}
