package main

// Query enumeration: EDNS forms x ECS variants x response classes x zones x
// resolver addresses. Every query is built as a dns.Msg, packed and unpacked
// again, so that the handler sees exactly what it would read off the wire
// (in particular ECS addresses masked to the source length, as miekg packs).

import (
	"fmt"
	"net"

	"github.com/miekg/dns"
)

type ednsForm int

const (
	formNoEDNS ednsForm = iota
	formEmpty
	formCookie
	formUnknown
	formECS
	formECSCookie
	formCookieECS
	// the OPT record (with the client-subnet option) is NOT the last record of the additional section: another
	// record follows it (RFC 6891 6.1.1 allows the OPT anywhere in the section; TSIG must even come after it)
	formECSThenRR
	// the OPT record without options is followed by another record
	formEmptyThenRR
	nForms
)

var formNames = [nForms]string{"noedns", "edns", "cookie", "opt65001", "ecs", "ecs+cookie", "cookie+ecs", "ecs+rr-after-opt", "edns+rr-after-opt"}

type ecsVar struct {
	fam   uint16
	src   uint8
	addr  net.IP // masked; 4 bytes (family 1) or 16 bytes (family 2)
	first bool   // derived from the first base address of its family
	// raw, when set, is what the server sees in the option: an address with bits set BELOW the source prefix
	// length. A wire message can carry that (miekg's unpacker keeps the bytes as sent, only its packer masks);
	// the client network is still addr/src, and that is what the statement's longest-prefix match is about.
	raw net.IP
}

func (e *ecsVar) id() string {
	s := fmt.Sprintf("%d-%s-%d", map[uint16]int{1: 4, 2: 6}[e.fam], e.addr, e.src)
	if e.raw != nil {
		s += "~" + e.raw.String()
	}
	return s
}

type respClass int

const (
	classPositive respClass = iota
	classNodata
	classNXDomain
	classReferral
	classRefused
	classBadVers
	nClasses
)

var classNames = [nClasses]string{"positive", "nodata", "nxdomain", "referral", "refused", "badvers"}

type query struct {
	ord      int
	form     ednsForm
	ecs      *ecsVar
	class    respClass
	mapped   bool // name of the zone whose names select the client-subnet map
	name     string
	qtype    uint16
	resolver string
	version  uint8
}

func (q *query) formID() string {
	s := formNames[q.form]
	if q.ecs != nil {
		switch q.form {
		case formECS:
			s = "ecs" + q.ecs.id()
		case formECSCookie:
			s = "ecs" + q.ecs.id() + "+cookie"
		case formCookieECS:
			s = "cookie+ecs" + q.ecs.id()
		case formECSThenRR:
			s = "ecs" + q.ecs.id() + "+rr-after-opt"
		}
	}
	if q.version != 0 {
		s += fmt.Sprintf(",v%d", q.version)
	}
	return s
}

func (q *query) id() string {
	return fmt.Sprintf("%s@%s@%s", q.formID(), q.name, q.resolver)
}

var resolvers = []string{"10.1.1.1", "8.8.8.8", "2001:db8:1:1::1"}

// base addresses: on and off the declared subnets (see model.go)
var bases4 = []string{
	"10.1.1.1",   // in /8 /16 /24 /25 and the /32 host
	"10.1.1.129", // in /8 /16 /24, not in the /25
	"10.1.2.1",   // in /8 /16
	"10.2.0.1",   // in /8
	"11.0.0.1",   // in no specific subnet
	"192.0.2.77", // first bit set
}
var bases6 = []string{
	"2001:db8:1:1::1",   // in /32 /48 /56 /64 and the /128 host
	"2001:db8:1:1::2",   // as above but not the host
	"2001:db8:1:2::1",   // in /32 /48 /56
	"2001:db8:1:100::1", // in /32 /48
	"2001:db8:2::1",     // in /32
	"2001:db9::1",       // in no specific subnet
	"8000::1",           // first bit set
}

// family-2 options whose address lies inside ::ffff:0:0/96 (IPv4-mapped): wire-valid, and every store keeps
// IPv4 subnets at ::ffff:a.b.c.d/(96+n), so they are matched against the declared IPv4 subnets; the scope
// must then be expressed in the client's (IPv6) family, i.e. 96+n
var bases6mapped = []string{"::ffff:10.1.1.1", "::ffff:10.1.2.1", "::ffff:11.0.0.1"}
var srcLens6Mapped = []int{96, 104, 112, 120, 121, 128}

var srcLens4Quick = []int{0, 1, 8, 9, 16, 24, 25, 32}
var srcLens6Quick = []int{0, 1, 32, 48, 56, 64, 128}

func allLens(n int) []int {
	o := make([]int, n+1)
	for i := range o {
		o[i] = i
	}
	return o
}

func buildECSVariants(thorough bool) []*ecsVar {
	var out []*ecsVar
	seen := map[string]bool{}
	add := func(fam uint16, base string, l int, first bool) {
		ip := net.ParseIP(base)
		bits := 128
		if fam == 1 {
			ip = ip.To4()
			bits = 32
		}
		m := ip.Mask(net.CIDRMask(l, bits))
		v := &ecsVar{fam: fam, src: uint8(l), addr: m, first: first}
		if !seen[v.id()] {
			seen[v.id()] = true
			out = append(out, v)
		}
	}
	l4, l6 := srcLens4Quick, srcLens6Quick
	if thorough {
		l4, l6 = allLens(32), allLens(128)
	}
	for _, l := range l4 {
		for i, b := range bases4 {
			add(1, b, l, i == 0)
		}
	}
	for _, l := range l6 {
		for i, b := range bases6 {
			add(2, b, l, i == 0)
		}
	}
	// stray bits below the source prefix length (see ecsVar.raw): the host addresses of the nested subnets
	stray := func(fam uint16, base string, lens []int) {
		ip := net.ParseIP(base)
		bits := 128
		if fam == 1 {
			ip = ip.To4()
			bits = 32
		}
		for _, l := range lens {
			m := ip.Mask(net.CIDRMask(l, bits))
			if m.Equal(ip) {
				continue
			}
			v := &ecsVar{fam: fam, src: uint8(l), addr: m, raw: ip}
			if !seen[v.id()] {
				seen[v.id()] = true
				out = append(out, v)
			}
		}
	}
	stray(1, "10.1.1.1", []int{8, 16, 24, 25})
	stray(2, "2001:db8:1:1::1", []int{32, 48, 56, 64})
	lm := srcLens6Mapped
	if thorough {
		lm = allLens(128)[96:]
	}
	for _, l := range lm {
		for _, b := range bases6mapped {
			add(2, b, l, false)
		}
	}
	return out
}

func className(c respClass, mapped bool) (string, uint16) {
	z := zoneUnmapped
	if mapped {
		z = zoneMapped
	}
	switch c {
	case classPositive, classBadVers:
		return "www." + z, dns.TypeA
	case classNodata:
		return "www." + z, dns.TypeTXT
	case classNXDomain:
		return "nx." + z, dns.TypeA
	case classReferral:
		return "x.deleg." + z, dns.TypeA
	case classRefused:
		if mapped {
			return refusedMap, dns.TypeA
		}
		return refusedNoMap, dns.TypeA
	}
	panic("class")
}

// buildQueries enumerates the queries, simplest first.
func buildQueries(vars []*ecsVar, thorough bool) []*query {
	var out []*query
	type fe struct {
		f ednsForm
		e *ecsVar
	}
	var forms []fe
	for f := formNoEDNS; f <= formUnknown; f++ {
		forms = append(forms, fe{f, nil})
	}
	forms = append(forms, fe{formEmptyThenRR, nil})
	for _, f := range []ednsForm{formECS, formECSCookie, formCookieECS, formECSThenRR} {
		for _, v := range vars {
			// A cookie next to the ECS option (or a record after the OPT) does not take part in
			// any lookup: the quick tier combines it only with the variants of the first
			// base address of each family (every source length).
			if !thorough && f != formECS && !v.first {
				continue
			}
			forms = append(forms, fe{f, v})
		}
	}
	for c := classPositive; c < nClasses; c++ {
		for _, mapped := range []bool{true, false} {
			for ri, res := range resolvers {
				// The resolver address is observable only in positive answers, and a
				// BADVERS reply is produced before any lookup: the quick tier does
				// not multiply the other classes by resolvers (nor BADVERS by zones).
				if !thorough && ri > 0 && c != classPositive {
					continue
				}
				if !thorough && !mapped && c != classPositive && c != classRefused {
					continue // unmapped zone: the quick tier asks the positive and the REFUSED class only
				}
				for _, f := range forms {
					if c == classBadVers && f.f == formNoEDNS {
						continue
					}
					n, t := className(c, mapped)
					q := &query{ord: len(out), form: f.f, ecs: f.e, class: c, mapped: mapped, name: n, qtype: t, resolver: res}
					if c == classBadVers {
						q.version = 1
					}
					out = append(out, q)
				}
			}
		}
	}
	return out
}

// wire builds the query message and returns its packed form.
func (q *query) wire() []byte {
	m := new(dns.Msg)
	m.SetQuestion(dns.Fqdn(q.name), q.qtype)
	m.RecursionDesired = false
	m.Id = 4242
	if q.form != formNoEDNS {
		o := &dns.OPT{Hdr: dns.RR_Header{Name: ".", Rrtype: dns.TypeOPT}}
		o.SetUDPSize(4096)
		o.SetVersion(q.version)
		cookie := &dns.EDNS0_COOKIE{Code: dns.EDNS0COOKIE, Cookie: "0123456789abcdef"}
		var ecs *dns.EDNS0_SUBNET
		if q.ecs != nil {
			ecs = &dns.EDNS0_SUBNET{Code: dns.EDNS0SUBNET, Family: q.ecs.fam, SourceNetmask: q.ecs.src, SourceScope: 0, Address: q.ecs.addr}
		}
		switch q.form {
		case formCookie:
			o.Option = append(o.Option, cookie)
		case formUnknown:
			o.Option = append(o.Option, &dns.EDNS0_LOCAL{Code: 65001, Data: []byte{1, 2, 3}})
		case formECS:
			o.Option = append(o.Option, ecs)
		case formECSCookie:
			o.Option = append(o.Option, ecs, cookie)
		case formCookieECS:
			o.Option = append(o.Option, cookie, ecs)
		case formECSThenRR:
			o.Option = append(o.Option, ecs)
		}
		m.Extra = append(m.Extra, o)
		if q.form == formECSThenRR || q.form == formEmptyThenRR {
			m.Extra = append(m.Extra, &dns.A{Hdr: dns.RR_Header{Name: "after-opt.invalid.", Rrtype: dns.TypeA, Class: dns.ClassINET, Ttl: 0}, A: net.IPv4(192, 0, 2, 250)})
		}
	}
	b, err := m.Pack()
	if err != nil {
		panic(fmt.Sprintf("query %s does not pack: %v", q.id(), err))
	}
	return b
}
