package main

import (
	"fmt"
	"sort"
	"strings"
)

// expectation of the oracle for one element / one list.
type expect int

const (
	accept expect = iota // a plainly valid form: must be accepted and decode to the declared value
	either               // the text form is debatable: may be refused, but if accepted must decode to the declared value
	reject               // must be refused (property statement, or value not representable in RFC 9460 wire form)
)

func (e expect) String() string { return [...]string{"accept", "either", "reject"}[e] }

// elem is one `key=value` segment of a parameter list together with what it
// declares. Everything here is written by hand: no address, number or base64
// parser is involved in stating what a segment means.
type elem struct {
	idx   int    // global index (1-based), used in list codes
	key   int    // RFC 9460 key number the segment is about; -1 = none
	name  string // token used in fingerprints: [A-Za-z0-9_=-]+ only
	text  string // the segment as it appears in the data file
	exp   expect
	why   string   // reason for either/reject
	canon string   // declared value in canonical rendering (see svcbdec.canonValue); "" for key -1
	mand  []uint16 // for mandatory: the named keys
	empty bool     // the empty segment
	gen   string   // how the text is generated, when it is too long to print
}

var keyNames = []string{"mandatory", "alpn", "no-default-alpn", "port", "ipv4hint", "echconfig", "ipv6hint"}

func hexs(s string) string { return fmt.Sprintf("%x", s) }

func alpnCanon(ids ...string) string {
	var h []string
	for _, i := range ids {
		h = append(h, hexs(i))
	}
	return "1:alpn[" + strings.Join(h, ",") + "]"
}

func mandCanon(keys ...uint16) string {
	k := append([]uint16(nil), keys...)
	sort.Slice(k, func(i, j int) bool { return k[i] < k[j] })
	var s []string
	for _, x := range k {
		s = append(s, fmt.Sprint(x))
	}
	return "0:mandatory[" + strings.Join(s, ",") + "]"
}

var a255 = strings.Repeat("A", 255)
var a256 = strings.Repeat("A", 256)
var z256 = strings.Repeat("z", 256)

// perKey[k] is the alphabet of key k, simplest first.
var perKey = [7][]elem{
	{ // 0 mandatory: the declared value is a SET of keys
		{name: "mandatory=alpn", text: "mandatory=alpn", mand: []uint16{1}, canon: mandCanon(1)},
		{name: "mandatory=ipv4hint_port", text: "mandatory=ipv4hint|port", mand: []uint16{4, 3}, canon: mandCanon(4, 3)}, // neither numeric nor alphabetic order
		{name: "mandatory=ipv6hint", text: "mandatory=ipv6hint", mand: []uint16{6}, canon: mandCanon(6)},
		{name: "mandatory=alpn_alpn", text: "mandatory=alpn|alpn", exp: reject, why: "mandatory repeats a key"},
		{name: "mandatory=self", text: "mandatory=mandatory", exp: reject, why: "mandatory names itself"},
		{name: "mandatory=port_self", text: "mandatory=port|mandatory", exp: reject, why: "mandatory names itself"},
	},
	{ // 1 alpn: ordered list of ids, each 1..255 octets
		{name: "alpn=h2", text: "alpn=h2", canon: alpnCanon("h2")},
		{name: "alpn=x", text: "alpn=x", canon: alpnCanon("x")},
		{name: "alpn=q_h3_h2", text: `alpn="h3|h2"`, canon: alpnCanon("h3", "h2")},
		{name: "alpn=len255", text: "alpn=" + a255, canon: alpnCanon(a255)},
		{name: "alpn=empty", text: `alpn=""`, exp: reject, why: "alpn-id = 1*255OCTET: an empty id has no RFC 9460 wire form"},
		{name: "alpn=len256", text: "alpn=" + a256, exp: reject, why: "alpn-id = 1*255OCTET: a 256-octet id has no RFC 9460 wire form"},
		{name: "alpn=len256z", text: "alpn=" + z256, exp: reject, why: "alpn-id = 1*255OCTET: a 256-octet id has no RFC 9460 wire form"},
	},
	{ // 2 no-default-alpn: no value
		{name: "no-default-alpn=bare_eq", text: "no-default-alpn=", canon: "2:nda"},
		{name: "no-default-alpn=quoted", text: `no-default-alpn=""`, canon: "2:nda"},
		{name: "no-default-alpn=novalue", text: "no-default-alpn", exp: either, why: "RFC presentation form without '='; the data-file grammar is free to refuse it", canon: "2:nda"},
		{name: "no-default-alpn=1", text: "no-default-alpn=1", exp: reject, why: "no-default-alpn takes no value"},
	},
	{ // 3 port
		{name: "port=0", text: "port=0", canon: "3:port[0]"},
		{name: "port=1", text: "port=1", canon: "3:port[1]"},
		{name: "port=65535", text: "port=65535", canon: "3:port[65535]"},
		{name: "port=65536", text: "port=65536", exp: reject, why: "port out of range"},
		{name: "port=-1", text: "port=-1", exp: reject, why: "port out of range"},
		{name: "port=plus80", text: "port=+80", exp: either, why: "signed decimal", canon: "3:port[80]"},
	},
	{ // 4 ipv4hint
		{name: "ipv4hint=1.2.3.4", text: "ipv4hint=1.2.3.4", canon: "4:v4[01020304]"},
		{name: "ipv4hint=max_zero", text: "ipv4hint=255.255.255.255|0.0.0.0", canon: "4:v4[ffffffff,00000000]"},
		{name: "ipv4hint=v4mapped", text: "ipv4hint=::ffff:1.2.3.4", exp: either, why: "IPv4-mapped IPv6 text for an IPv4 hint", canon: "4:v4[01020304]"},
		{name: "ipv4hint=v6", text: "ipv4hint=2001:db8::1", exp: reject, why: "IPv6 address in ipv4hint"},
		{name: "ipv4hint=short", text: "ipv4hint=1.2.3", exp: reject, why: "not an address"},
	},
	{ // 5 echconfig (RFC 9460 key 5, "ech"): opaque octets written in base64
		{name: "echconfig=AAEC", text: "echconfig=AAEC", canon: "5:ech[000102]"},
		{name: "echconfig=q_plus_slash_padded", text: `echconfig="+/8="`, canon: "5:ech[fbff]"}, // quoted, '+' and '/' of the standard alphabet, '=' padding
		{name: "echconfig=unpadded", text: "echconfig=AAE", exp: either, why: "base64 without padding", canon: "5:ech[0001]"},
		{name: "echconfig=badchars", text: "echconfig=!!!!", exp: reject, why: "not base64"},
	},
	{ // 6 ipv6hint
		{name: "ipv6hint=2001db8_1", text: "ipv6hint=2001:db8::1", canon: "6:v6[20010db8000000000000000000000001]"},
		{name: "ipv6hint=zero", text: "ipv6hint=::", canon: "6:v6[00000000000000000000000000000000]"},
		{name: "ipv6hint=two", text: "ipv6hint=2001:db8::2|2001:db8::1", canon: "6:v6[20010db8000000000000000000000002,20010db8000000000000000000000001]"},
		{name: "ipv6hint=v4mapped", text: "ipv6hint=::ffff:1.2.3.4", exp: either, why: "IPv4-mapped address as an IPv6 hint", canon: "6:v6[00000000000000000000ffff01020304]"},
		{name: "ipv6hint=v4", text: "ipv6hint=1.2.3.4", exp: reject, why: "IPv4 address in ipv6hint"},
		{name: "ipv6hint=bad", text: "ipv6hint=2001:db8::g", exp: reject, why: "not an address"},
	},
}

// structural elements: unknown keys, malformed segments, the empty segment.
var structural = []elem{
	{key: -1, name: "foo=bar", text: "foo=bar", exp: reject, why: "unknown key"},
	{key: 9, name: "key9=x", text: "key9=x", exp: either, why: "RFC generic keyNNNNN form", canon: "9:raw[78]"},
	{key: 5, name: "ech=AAEC", text: "ech=AAEC", exp: either, why: "RFC 9460 name of key 5", canon: "5:ech[000102]"},
	{key: 1, name: "ALPN=h2", text: "ALPN=h2", exp: either, why: "upper-case key", canon: alpnCanon("h2")},
	{key: 1, name: "alpn=novalue", text: "alpn", exp: reject, why: "alpn needs a value"},
	{key: -1, name: "nokey=h2", text: "=h2", exp: reject, why: "empty key"},
	{key: -1, name: "EMPTY", text: "", exp: either, why: "empty segment", empty: true},
}

// extras: single-parameter lists whose value does not fit the 16-bit
// SvcParamValue length; run once each, outside the product.
var extras = []elem{
	{key: 1, name: "alpn=258ids_total65792", text: "alpn=" + strings.TrimSuffix(strings.Repeat(a255+"|", 258), "|"), exp: reject, why: "value of 258*(1+255)=66048 octets exceeds the 16-bit SvcParamValue length", gen: `"alpn=" + 258 ids of 255 'A' joined by '|'`},
	{key: 4, name: "ipv4hint=16384addrs", text: "ipv4hint=" + strings.TrimSuffix(strings.Repeat("1.2.3.4|", 16384), "|"), exp: reject, why: "value of 65536 octets exceeds the 16-bit SvcParamValue length", gen: `"ipv4hint=" + 16384 times "1.2.3.4" joined by '|'`},
	{key: 6, name: "ipv6hint=4096addrs", text: "ipv6hint=" + strings.TrimSuffix(strings.Repeat("2001:db8::1|", 4096), "|"), exp: reject, why: "value of 65536 octets exceeds the 16-bit SvcParamValue length", gen: `"ipv6hint=" + 4096 times "2001:db8::1" joined by '|'`},
}

var (
	allElems  []*elem    // index idx-1
	fullByKey [7][]*elem // family A alphabet
	reduced   []*elem    // family B alphabet: first two plainly valid values per key + structural
)

func initAlphabet() {
	for k := range perKey {
		nvalid := 0
		for i := range perKey[k] {
			e := &perKey[k][i]
			e.key = k
			allElems = append(allElems, e)
			e.idx = len(allElems)
			fullByKey[k] = append(fullByKey[k], e)
			if e.exp == accept && nvalid < 2 {
				reduced = append(reduced, e)
				nvalid++
			}
		}
	}
	for i := range structural {
		e := &structural[i]
		allElems = append(allElems, e)
		e.idx = len(allElems)
		reduced = append(reduced, e)
	}
	for i := range extras {
		e := &extras[i]
		allElems = append(allElems, e)
		e.idx = len(allElems)
	}
	if len(allElems) >= 63 {
		panic("list code needs 6 bits per element")
	}
}

// list code: 6 bits per element, first element in the low bits.
type code uint64

func encode(l []*elem) code {
	var c code
	for i, e := range l {
		c |= code(e.idx) << (6 * uint(i))
	}
	return c
}

func decode(c code) []*elem {
	var l []*elem
	for ; c != 0; c >>= 6 {
		l = append(l, allElems[int(c&63)-1])
	}
	return l
}

func listText(l []*elem) string {
	s := make([]string, len(l))
	for i, e := range l {
		s[i] = e.text
	}
	return strings.Join(s, ";")
}

func listName(l []*elem) string {
	if len(l) == 0 {
		return "NOPARAMS"
	}
	s := make([]string, len(l))
	for i, e := range l {
		s[i] = e.name
	}
	return strings.Join(s, ";")
}

// expectList is the reference model of acceptance. It returns the expectation
// for the whole list, the reason when it is not `accept`, and the declared
// parameters in canonical rendering sorted by key number.
func expectList(l []*elem) (exp expect, why string, declared []string) {
	var present [16]bool
	var decl [12]*elem // keyed segments, kept sorted by key number (stable)
	nd := 0
	exp = accept
	var whyElem *elem
	repeated, missing := -1, -1
	for _, e := range l {
		if e.exp > exp {
			exp, whyElem = e.exp, e
		}
		if e.key >= 0 {
			if present[e.key] {
				repeated = e.key
			}
			present[e.key] = true
			j := nd
			for j > 0 && decl[j-1].key > e.key {
				decl[j] = decl[j-1]
				j--
			}
			decl[j] = e
			nd++
		}
	}
	for _, e := range l {
		for _, m := range e.mand {
			if !present[m] {
				missing = int(m)
			}
		}
	}
	switch {
	case exp == reject:
		return reject, whyElem.name + ": " + whyElem.why, nil
	case repeated >= 0:
		return reject, fmt.Sprintf("key %d repeated", repeated), nil
	case missing >= 0:
		return reject, fmt.Sprintf("mandatory names key %d which is missing", missing), nil
	}
	if whyElem != nil {
		why = whyElem.name + ": " + whyElem.why
	}
	declared = make([]string, nd)
	for i := 0; i < nd; i++ {
		declared[i] = decl[i].canon
	}
	return exp, why, declared
}
