// C18: SVCB/HTTPS parameters compile to conformant, faithful wire data.
//
// Small-scope enumeration of parameter lists, each run through the REAL
// svcb.ParamList.FromText / ToWire / ToText and (layer L) through real `B`/`H`
// data lines with dnsdata.Codec.ConvertLn, judged by
//   - a hand-written acceptance model (alphabet.go: expectList),
//   - a strict RFC 9460 decoder written from the RFC (svcbdec.go),
//   - miekg/dns's SVCB unpacker and packer (the consumer the server itself uses).
//
// Family A: every ordered list of <=K distinct keys out of the seven supported
// ones, each key with every value of its alphabet.
// Family B: every sequence of <=KB segments over a reduced alphabet (two valid
// values per key, unknown keys, malformed segments, the empty segment) that has
// a repeated key or a structural segment.
// Layer L: every list of <=KL segments of A/B inside a data line, over record
// type x separator x priority x target x location.
//
// Because every sub-list of an enumerated list is enumerated too, only minimal
// failing lists (no proper sub-sequence fails the same way) are reported.
package main

import (
	"bytes"
	"encoding/binary"
	"encoding/hex"
	"fmt"
	"os"
	"runtime/pprof"
	"sort"
	"strings"
	"sync"
	"sync/atomic"

	"github.com/facebookincubator/dns/dnsrocks/dnsdata"
	"github.com/facebookincubator/dns/dnsrocks/dnsdata/svcb"
	"github.com/miekg/dns"

	"verifharness/vlib"
)

// kinds of disagreement (fingerprint prefixes).
const (
	kPanicFromText = iota
	kPanicToWire
	kPanicToText
	kAcceptedInvalid
	kRejectedValid
	kWireFraming
	kWireOrder
	kWireNonconformant
	kWireMismatch
	kMiekgReject
	kMiekgMismatch
	kMiekgRepack
	kRoundtripReject
	kRoundtripWire
	kEmptySegment
	nKinds
)

var kindNames = [nKinds]string{
	"panic-fromtext", "panic-towire", "panic-totext", "accepted-invalid", "rejected-valid",
	"wire-framing", "wire-order", "wire-nonconformant", "wire-mismatch", "miekg-reject", "miekg-mismatch", "miekg-repack",
	"roundtrip-reject", "roundtrip-wire", "empty-segment-drop",
}

const roundtripBits = 1<<kPanicToText | 1<<kRoundtripReject | 1<<kRoundtripWire | 1<<kPanicFromText
const miekgBits = 1<<kMiekgReject | 1<<kMiekgMismatch | 1<<kMiekgRepack

type outcome struct {
	mask       uint32
	accepted   bool
	nontrivial bool
	wire       []byte
	exp        expect
	declared   []string
	evals      int64 // oracle comparisons made
	execs      int64 // calls into the repository's code
	det        map[int]string
}

func guard(f func()) (p string) {
	defer func() {
		if x := recover(); x != nil {
			p = fmt.Sprint(x)
		}
	}()
	f()
	return ""
}

func short(s string) string {
	s = strings.ReplaceAll(s, a256, "<A*256>")
	s = strings.ReplaceAll(s, z256, "<z*256>")
	s = strings.ReplaceAll(s, strings.Repeat("7a", 256), "<7a*256>")
	s = strings.ReplaceAll(s, a255, "<A*255>")
	h255 := strings.Repeat("41", 255)
	s = strings.ReplaceAll(s, h255+"41", "<41*256>")
	s = strings.ReplaceAll(s, h255, "<41*255>")
	if len(s) > 600 {
		s = s[:600] + "..."
	}
	return s
}

func eqStrings(a, b []string) bool {
	if len(a) != len(b) {
		return false
	}
	for i := range a {
		if a[i] != b[i] {
			return false
		}
	}
	return true
}

// canonMiekg renders what miekg recovered in the same canonical form as svcbdec.
func canonMiekg(vals []dns.SVCBKeyValue) []string {
	var out []string
	for _, kv := range vals {
		switch v := kv.(type) {
		case *dns.SVCBMandatory:
			var s []string
			for _, c := range v.Code {
				s = append(s, fmt.Sprint(uint16(c)))
			}
			out = append(out, "0:mandatory["+strings.Join(s, ",")+"]")
		case *dns.SVCBAlpn:
			var s []string
			for _, a := range v.Alpn {
				s = append(s, hexs(a))
			}
			out = append(out, "1:alpn["+strings.Join(s, ",")+"]")
		case *dns.SVCBNoDefaultAlpn:
			out = append(out, "2:nda")
		case *dns.SVCBPort:
			out = append(out, fmt.Sprintf("3:port[%d]", v.Port))
		case *dns.SVCBIPv4Hint:
			var s []string
			for _, ip := range v.Hint {
				s = append(s, hex.EncodeToString(ip))
			}
			out = append(out, "4:v4["+strings.Join(s, ",")+"]")
		case *dns.SVCBECHConfig:
			out = append(out, "5:ech["+hex.EncodeToString(v.ECH)+"]")
		case *dns.SVCBIPv6Hint:
			var s []string
			for _, ip := range v.Hint {
				s = append(s, hex.EncodeToString(ip))
			}
			out = append(out, "6:v6["+strings.Join(s, ",")+"]")
		case *dns.SVCBLocal:
			out = append(out, fmt.Sprintf("%d:raw[%s]", uint16(v.KeyCode), hex.EncodeToString(v.Data)))
		default:
			out = append(out, fmt.Sprintf("%d:other[%s]", uint16(kv.Key()), kv.String()))
		}
	}
	return out
}

// rrWire builds a complete SVCB RR on the wire: owner ".", type, class IN,
// TTL 300, priority 1, target ".", then the given SvcParams.
func rrWire(rrtype uint16, params []byte) []byte {
	rdlen := 2 + 1 + len(params)
	b := make([]byte, 0, 11+rdlen)
	b = append(b, 0)
	b = append(b, byte(rrtype>>8), byte(rrtype), 0, 1, 0, 0, 1, 0x2c, byte(rdlen>>8), byte(rdlen))
	b = append(b, 0, 1, 0)
	return append(b, params...)
}

// evalList runs one parameter list through the real code and all oracles.
func evalList(l []*elem, detail bool) (o outcome) {
	text := listText(l)
	exp, why, declared := expectList(l)
	o.exp, o.declared = exp, declared
	// A list with an empty segment that is followed by further segments: when
	// it is accepted, every disagreement about WHICH parameters were declared
	// is one observation ("segments after an empty one are not processed") and
	// is reported under one kind, so that it has one family of minimal cases.
	afterEmpty := false
	for i, e := range l {
		if e.empty && i+1 < len(l) {
			for _, x := range l[i+1:] {
				if !x.empty {
					afterEmpty = true
				}
			}
		}
	}
	fail := func(k int, f string, a ...interface{}) {
		if afterEmpty && (k == kAcceptedInvalid || k == kWireMismatch || k == kMiekgMismatch) {
			k = kEmptySegment
		}
		o.mask |= 1 << uint(k)
		if detail {
			if o.det == nil {
				o.det = map[int]string{}
			}
			if _, dup := o.det[k]; !dup {
				o.det[k] = short(fmt.Sprintf(f, a...))
			}
		}
	}
	var pl svcb.ParamList
	var err error
	o.execs++
	if p := guard(func() { err = pl.FromText([]byte(text)) }); p != "" {
		fail(kPanicFromText, "FromText(%q) panicked: %s", text, p)
		return
	}
	o.evals++
	if err != nil {
		if exp == accept {
			fail(kRejectedValid, "FromText(%q) refused a plainly valid list: %v", text, err)
		}
		return
	}
	o.accepted = true
	if exp == reject {
		fail(kAcceptedInvalid, "FromText(%q) accepted a list that must be refused (%s)", text, why)
	}
	var wb bytes.Buffer
	o.execs++
	if p := guard(func() { err = pl.ToWire(&wb) }); p != "" || err != nil {
		fail(kPanicToWire, "ToWire after FromText(%q): panic=%q err=%v", text, p, err)
		return
	}
	wire := wb.Bytes()
	o.wire = wire

	// (1a) strict RFC 9460 decoder
	o.evals++
	canon, dk, derr := decodeParams(wire)
	okStrict := false
	switch {
	case derr != nil && dk == "value":
		fail(kWireNonconformant, "FromText(%q) -> wire %x: value not in RFC 9460 wire form: %v", text, wire, derr)
	case derr != nil && dk == "framing":
		fail(kWireFraming, "FromText(%q) -> wire %x: key/length/value triples do not fill the field: %v", text, wire, derr)
	case derr != nil:
		fail(kWireOrder, "FromText(%q) -> wire %x: keys not strictly increasing: %v", text, wire, derr)
	case exp != reject:
		o.evals++
		if !eqStrings(canon, declared) {
			fail(kWireMismatch, "FromText(%q) -> wire %x: strict decoder recovers %v, declared %v", text, wire, canon, declared)
		} else {
			okStrict = true
		}
	}

	// (1b) miekg/dns: unpack a complete RR, compare, pack again
	msg := rrWire(dns.TypeSVCB, wire)
	var rr dns.RR
	var off int
	var uerr error
	o.evals++
	p := guard(func() { rr, off, uerr = dns.UnpackRR(msg, 0) })
	okMiekg := false
	if p != "" || uerr != nil || off != len(msg) {
		fail(kMiekgReject, "FromText(%q) -> wire %x: miekg UnpackRR fails: panic=%q err=%v off=%d/%d", text, wire, p, uerr, off, len(msg))
	} else if sv, ok := rr.(*dns.SVCB); !ok || sv.Priority != 1 || sv.Target != "." {
		fail(kMiekgMismatch, "FromText(%q): miekg returned %T %v", text, rr, rr)
	} else {
		if exp != reject {
			o.evals++
			if mc := canonMiekg(sv.Value); !eqStrings(mc, declared) {
				fail(kMiekgMismatch, "FromText(%q) -> wire %x: miekg recovers %v, declared %v", text, wire, mc, declared)
			} else {
				okMiekg = true
			}
		}
		buf := make([]byte, len(msg)+64)
		var n int
		var perr error
		o.evals++
		p := guard(func() { n, perr = dns.PackRR(rr, buf, 0, nil, false) })
		if p != "" || perr != nil || !bytes.Equal(buf[:n], msg) {
			okMiekg = false
			fail(kMiekgRepack, "FromText(%q) -> wire %x: miekg cannot pack the record it unpacked back to the same bytes: panic=%q err=%v got %x", text, wire, p, perr, buf[:n])
		}
	}

	// (3) print the stored parameters and parse the text again
	var tb bytes.Buffer
	o.execs++
	if p := guard(func() { pl.ToText(&tb) }); p != "" {
		fail(kPanicToText, "FromText(%q) accepted, then ToText panicked: %s", text, p)
	} else {
		var pl2 svcb.ParamList
		var err2 error
		o.execs++
		o.evals++
		if p := guard(func() { err2 = pl2.FromText(tb.Bytes()) }); p != "" {
			fail(kPanicFromText, "FromText(ToText(FromText(%q)) = %q) panicked: %s", text, tb.String(), p)
		} else if err2 != nil {
			fail(kRoundtripReject, "FromText(%q) accepted and prints as %q, which FromText refuses: %v", text, tb.String(), err2)
		} else {
			var wb2 bytes.Buffer
			o.execs++
			o.evals++
			if p := guard(func() { err2 = pl2.ToWire(&wb2) }); p != "" || err2 != nil || !bytes.Equal(wb2.Bytes(), wire) {
				fail(kRoundtripWire, "FromText(%q) -> wire %x, prints as %q, which parses to wire %x (panic=%q err=%v)", text, wire, tb.String(), wb2.Bytes(), p, err2)
			}
		}
	}
	o.nontrivial = okStrict && okMiekg && len(declared) > 0
	return
}

// ---------------------------------------------------------------- enumeration

// genA returns the codes of all ordered lists of k distinct keys, every value.
func genA(k int) []code {
	var out []code
	var cur []*elem
	var used [7]bool
	var rec func()
	rec = func() {
		if len(cur) == k {
			out = append(out, encode(cur))
			return
		}
		for key := 0; key < 7; key++ {
			if used[key] {
				continue
			}
			used[key] = true
			for _, e := range fullByKey[key] {
				cur = append(cur, e)
				rec()
				cur = cur[:len(cur)-1]
			}
			used[key] = false
		}
	}
	rec()
	return out
}

func isStructural(e *elem) bool {
	return e.idx > len(allElems)-len(structural)-len(extras) && e.idx <= len(allElems)-len(extras)
}

// genB returns all sequences of k segments over the reduced alphabet that have
// a structural segment or a repeated key (so: none that family A contains).
func genB(k int) []code {
	var out []code
	var cur []*elem
	var rec func()
	rec = func() {
		if len(cur) == k {
			feature := false
			seen := map[int]bool{}
			for _, e := range cur {
				if isStructural(e) || seen[e.key] {
					feature = true
				}
				seen[e.key] = true
			}
			if feature {
				out = append(out, encode(cur))
			}
			return
		}
		for _, e := range reduced {
			cur = append(cur, e)
			rec()
			cur = cur[:len(cur)-1]
		}
	}
	if k > 0 {
		rec()
	}
	return out
}

// properSubsequences calls f with the code of every proper subsequence of l
// (including the empty one), single removals first; stops when f returns true.
func properSubsequences(l []*elem, f func(code) bool) bool {
	n := len(l)
	full := uint(1)<<uint(n) - 1
	try := func(m uint) bool {
		var sub []*elem
		for i := 0; i < n; i++ {
			if m&(1<<uint(i)) != 0 {
				sub = append(sub, l[i])
			}
		}
		return f(encode(sub))
	}
	for i := 0; i < n; i++ {
		if try(full &^ (1 << uint(i))) {
			return true
		}
	}
	for m := uint(0); m < full; m++ {
		if bitsSet(full&^m) > 1 && try(m) {
			return true
		}
	}
	return false
}

func bitsSet(x uint) int {
	n := 0
	for ; x != 0; x &= x - 1 {
		n++
	}
	return n
}

var allFingerprints []string

type failRec struct {
	c    code
	mask uint32
}

type counters struct {
	lists, accepted, rejected, nontrivial, evals, execs, failing, minimal int64
}

const chunk = 512

// ---------------------------------------------------------------- line layer

type variant struct {
	rtype  string // "B" (SVCB) or "H" (HTTPS)
	sep    string
	prio   uint16
	target string
	loc    string // text of the location field
}

func (v variant) String() string {
	sep := map[string]string{",": "comma", ":": "colon"}[v.sep]
	tgt := map[string]string{".": "root", "": "none", "t.example.com": "name"}[v.target]
	loc := "noloc"
	if v.loc != "" {
		loc = "loc"
	}
	return fmt.Sprintf("%s-%s-prio%d-tgt_%s-%s", v.rtype, sep, v.prio, tgt, loc)
}

// variants, simplest first.
func allVariants() []variant {
	var out []variant
	for _, loc := range []string{"", `\141\142`} {
		for _, tgt := range []string{".", "t.example.com", ""} {
			for _, prio := range []uint16{1, 0, 65535} {
				for _, sep := range []string{",", ":"} {
					for _, rt := range []string{"B", "H"} {
						out = append(out, variant{rt, sep, prio, tgt, loc})
					}
				}
			}
		}
	}
	return out
}

const owner = "svc.example.com"

const (
	lPanic = iota
	lAccept
	lLayout
	lMiekg
	lRoundtrip
	nLineKinds
)

var lineKindNames = [nLineKinds]string{"line-panic", "line-accept", "line-layout", "line-miekg", "line-roundtrip"}

func wireName(n string) []byte {
	var b []byte
	for _, l := range strings.Split(n, ".") {
		if l != "" {
			b = append(b, byte(len(l)))
			b = append(b, l...)
		}
	}
	return append(b, 0)
}

func fqdn(n string) string {
	n = strings.Trim(n, ".")
	if n == "" {
		return "."
	}
	return n + "."
}

// evalLine puts the list into a data line and checks the stored record.
// po is the params-level outcome of the same list.
func evalLine(c *dnsdata.Codec, l []*elem, po *outcome, v variant, detail bool) (mask uint32, evals, execs int64, nontrivial bool, det map[int]string) {
	fail := func(k int, f string, a ...interface{}) {
		mask |= 1 << uint(k)
		if detail {
			if det == nil {
				det = map[int]string{}
			}
			if _, dup := det[k]; !dup {
				det[k] = short(fmt.Sprintf(f, a...))
			}
		}
	}
	text := listText(l)
	line := v.rtype + strings.Join([]string{owner, v.target, "300", v.loc, fmt.Sprint(v.prio), text}, v.sep)
	var recs []dnsdata.MapRecord
	var err error
	execs++
	if p := guard(func() { recs, err = c.ConvertLn([]byte(line)) }); p != "" {
		fail(lPanic, "ConvertLn(%q) panicked: %s", line, p)
		return
	}
	evals++
	if (err == nil) != po.accepted {
		fail(lAccept, "ConvertLn(%q): err=%v, but ParamList.FromText on the same parameters accepted=%v", line, err, po.accepted)
		return
	}
	if err != nil {
		return
	}
	rrtype := uint16(dns.TypeSVCB)
	if v.rtype == "H" {
		rrtype = dns.TypeHTTPS
	}
	// row layout: type(2) | '=' or '>' loc(2) | ttl(4) | ttd(8) | rdata
	evals++
	if len(recs) != 1 {
		fail(lLayout, "ConvertLn(%q): %d records", line, len(recs))
		return
	}
	val := recs[0].Value
	head := []byte{byte(rrtype >> 8), byte(rrtype)}
	if v.loc == "" {
		head = append(head, '=')
	} else {
		head = append(head, '>', 'a', 'b')
	}
	head = append(head, 0, 0, 1, 0x2c, 0, 0, 0, 0, 0, 0, 0, 0)
	var pr [2]byte
	binary.BigEndian.PutUint16(pr[:], v.prio)
	wantRdata := append(append(pr[:], wireName(v.target)...), po.wire...)
	if !bytes.HasPrefix(val, head) || !bytes.Equal(val[len(head):], wantRdata) {
		fail(lLayout, "ConvertLn(%q): stored value %x, want row head %x + rdata %x (priority, target, params %x)", line, val, head, wantRdata, po.wire)
		return
	}
	rdata := val[len(head):]
	prio, tgt, params, derr := decodeRdata(rdata)
	evals++
	if derr != nil || prio != v.prio || tgt != fqdn(v.target) || !bytes.Equal(params, po.wire) {
		fail(lLayout, "ConvertLn(%q): strict rdata decode: prio=%d target=%q params=%x err=%v", line, prio, tgt, params, derr)
	}
	// the server's own consumption: dns.UnpackRRWithHeader at the rdata offset
	if po.mask&miekgBits == 0 {
		hdr := dns.RR_Header{Name: owner + ".", Rrtype: rrtype, Class: dns.ClassINET, Ttl: 300, Rdlength: uint16(len(rdata))}
		var rr dns.RR
		var uerr error
		evals++
		p := guard(func() { rr, _, uerr = dns.UnpackRRWithHeader(hdr, val, len(head)) })
		var sv *dns.SVCB
		switch x := rr.(type) {
		case *dns.SVCB:
			sv = x
		case *dns.HTTPS:
			sv = &x.SVCB
		}
		switch {
		case p != "" || uerr != nil || sv == nil:
			fail(lMiekg, "ConvertLn(%q) -> value %x: UnpackRRWithHeader: panic=%q err=%v rr=%T", line, val, p, uerr, rr)
		case sv.Priority != v.prio || sv.Target != fqdn(v.target):
			fail(lMiekg, "ConvertLn(%q): miekg sees priority %d target %q", line, sv.Priority, sv.Target)
		case po.mask == 0 && po.exp != reject && !eqStrings(canonMiekg(sv.Value), po.declared):
			fail(lMiekg, "ConvertLn(%q): miekg recovers %v, declared %v", line, canonMiekg(sv.Value), po.declared)
		default:
			nontrivial = po.nontrivial
		}
	}
	// text normal form of the whole line and back
	if po.mask&roundtripBits == 0 {
		var text2 []byte
		var recs2 []dnsdata.MapRecord
		var err2 error
		evals++
		p := guard(func() {
			var rec dnsdata.Record
			execs++
			rec, err2 = c.DecodeLn([]byte(line))
			if err2 != nil {
				return
			}
			execs++
			text2, err2 = rec.MarshalText()
			if err2 != nil {
				return
			}
			execs++
			recs2, err2 = c.ConvertLn(text2)
		})
		if p != "" || err2 != nil || len(recs2) != 1 || !bytes.Equal(recs2[0].Key, recs[0].Key) || !bytes.Equal(recs2[0].Value, val) {
			fail(lRoundtrip, "line %q prints as %q which converts to %v (panic=%q err=%v), original value %x", line, text2, recs2, p, err2, val)
		}
	}
	return
}

// ---------------------------------------------------------------------- main

func main() {
	r := vlib.Start("C18")
	if pf := os.Getenv("VERIF_C18_PROF"); pf != "" {
		f, _ := os.Create(pf)
		pprof.StartCPUProfile(f)
		defer pprof.StopCPUProfile()
	}
	initAlphabet()
	maxA := r.Pick(4, 5)
	maxB := r.Pick(3, 4)
	maxL := r.Pick(2, 3)
	if maxB > maxA || maxL > maxA {
		vlib.Infra("bounds: sub-lists of B and L lists must be inside family A")
	}

	var ct counters
	var failSets [nKinds]map[code]struct{}
	for i := range failSets {
		failSets[i] = map[code]struct{}{}
	}
	var perKindFailing, perKindMinimal [nKinds]int64
	levelSizes := map[string]int{}
	var sampleCodes []code

	for k := 0; k <= maxA; k++ {
		codes := genA(k)
		levelSizes[fmt.Sprintf("A%d", k)] = len(codes)
		if k == 1 {
			for i := range extras {
				codes = append(codes, encode([]*elem{&extras[i]}))
			}
			levelSizes["X1"] = len(extras)
		}
		if k <= maxB {
			b := genB(k)
			levelSizes[fmt.Sprintf("B%d", k)] = len(b)
			codes = append(codes, b...)
		}
		// deterministic samples: first list of the level, the first non-trivial one
		// from one third of the level on, and the last list
		sampleCodes = append(sampleCodes, codes[0])
		for i := len(codes) / 3; i < len(codes); i++ {
			if o := evalList(decode(codes[i]), false); o.nontrivial {
				sampleCodes = append(sampleCodes, codes[i])
				break
			}
		}
		sampleCodes = append(sampleCodes, codes[len(codes)-1])
		nch := (len(codes) + chunk - 1) / chunk
		var mu sync.Mutex
		var fails []failRec
		vlib.ParallelFor(nch, func(ci int) {
			var lc counters
			var lf []failRec
			hi := (ci + 1) * chunk
			if hi > len(codes) {
				hi = len(codes)
			}
			for _, c := range codes[ci*chunk : hi] {
				o := evalList(decode(c), false)
				lc.lists++
				lc.evals += o.evals
				lc.execs += o.execs
				if o.accepted {
					lc.accepted++
				} else {
					lc.rejected++
				}
				if o.nontrivial {
					lc.nontrivial++
				}
				if o.mask != 0 {
					lc.failing++
					lf = append(lf, failRec{c, o.mask})
				}
			}
			atomic.AddInt64(&ct.lists, lc.lists)
			atomic.AddInt64(&ct.evals, lc.evals)
			atomic.AddInt64(&ct.execs, lc.execs)
			atomic.AddInt64(&ct.accepted, lc.accepted)
			atomic.AddInt64(&ct.rejected, lc.rejected)
			atomic.AddInt64(&ct.nontrivial, lc.nontrivial)
			atomic.AddInt64(&ct.failing, lc.failing)
			if len(lf) > 0 {
				mu.Lock()
				fails = append(fails, lf...)
				mu.Unlock()
			}
		})
		sort.Slice(fails, func(i, j int) bool { return fails[i].c < fails[j].c })
		// minimality against all smaller failing lists (failSets is read-only here)
		minimalMask := make([]uint32, len(fails))
		nfc := (len(fails) + chunk - 1) / chunk
		vlib.ParallelFor(nfc, func(ci int) {
			hi := (ci + 1) * chunk
			if hi > len(fails) {
				hi = len(fails)
			}
			for i := ci * chunk; i < hi; i++ {
				l := decode(fails[i].c)
				for kd := 0; kd < nKinds; kd++ {
					if fails[i].mask&(1<<uint(kd)) == 0 {
						continue
					}
					set := failSets[kd]
					if len(set) == 0 || !properSubsequences(l, func(c code) bool { _, ok := set[c]; return ok }) {
						minimalMask[i] |= 1 << uint(kd)
					}
				}
			}
		})
		for i, f := range fails {
			for kd := 0; kd < nKinds; kd++ {
				if f.mask&(1<<uint(kd)) != 0 {
					perKindFailing[kd]++
				}
			}
			if minimalMask[i] == 0 {
				continue
			}
			l := decode(f.c)
			o := evalList(l, true)
			if o.mask != f.mask {
				// the harness itself is deterministic (no clock, no randomness, sorted iteration): two evaluations of
				// one list can only differ when the code under test carries state from one call into the next (a pooled
				// or package-level buffer aliased by a stored value). The wire data of an accepted list then depends on
				// what was parsed before or concurrently: not faithful to the declared parameters.
				fp := "state-leak/" + listName(l)
				allFingerprints = append(allFingerprints, fp)
				r.Violate(fp, fmt.Sprintf("the same parameter list gave different verdicts in two evaluations (disagreement mask %x, then %x): the compiled data depends on earlier calls", f.mask, o.mask),
					map[string]interface{}{"params_text": replayText(l), "first_mask": f.mask, "second_mask": o.mask})
				continue
			}
			for kd := 0; kd < nKinds; kd++ {
				if minimalMask[i]&(1<<uint(kd)) == 0 {
					continue
				}
				perKindMinimal[kd]++
				ct.minimal++
				exp, why, decl := expectList(l)
				allFingerprints = append(allFingerprints, kindNames[kd]+"/"+listName(l))
				r.Violate(kindNames[kd]+"/"+listName(l), o.det[kd], map[string]interface{}{
					"params_text": replayText(l), "segments": strings.Split(listName(l), ";"), "expectation": exp.String(), "expectation_reason": why,
					"declared": decl, "accepted": o.accepted, "wire_hex": hex.EncodeToString(o.wire),
					"how": "var l svcb.ParamList; err := l.FromText([]byte(params_text)); l.ToWire(&buf); l.ToText(&buf2); second FromText on buf2",
				})
			}
		}
		if k < maxA {
			for _, f := range fails {
				for kd := 0; kd < nKinds; kd++ {
					if f.mask&(1<<uint(kd)) != 0 {
						failSets[kd][f.c] = struct{}{}
					}
				}
			}
		}
	}

	// ---- layer L: whole records through data lines
	variants := allVariants()
	var lcodes []code
	for k := 0; k <= maxL; k++ {
		lcodes = append(lcodes, genA(k)...)
		if k <= 2 {
			lcodes = append(lcodes, genB(k)...)
		}
	}
	type lineFail struct {
		c    code
		mask uint32
		vi   [nLineKinds]int // first failing variant per kind
	}
	var lineCases, lineEvals, lineExecs, lineNontrivial, lineAccepted, lineSkippedColon int64
	var lmu sync.Mutex
	var lfails []lineFail
	nch := (len(lcodes) + 63) / 64
	vlib.ParallelFor(nch, func(ci int) {
		codec := new(dnsdata.Codec)
		hi := (ci + 1) * 64
		if hi > len(lcodes) {
			hi = len(lcodes)
		}
		var cases, ev, ex, nt, acc, skipped int64
		var lf []lineFail
		for _, c := range lcodes[ci*64 : hi] {
			l := decode(c)
			po := evalList(l, false)
			text := listText(l)
			f := lineFail{c: c}
			for vi, v := range variants {
				if v.sep == ":" && strings.ContainsAny(text, ":,") {
					skipped++ // a ':'-separated line cannot carry a ':' inside a field
					continue
				}
				m, e1, e2, n, _ := evalLine(codec, l, &po, v, false)
				cases++
				ev += e1
				ex += e2
				if n {
					nt++
				}
				if po.accepted {
					acc++
				}
				for kd := 0; kd < nLineKinds; kd++ {
					if m&(1<<uint(kd)) != 0 && f.mask&(1<<uint(kd)) == 0 {
						f.mask |= 1 << uint(kd)
						f.vi[kd] = vi
					}
				}
			}
			if f.mask != 0 {
				lf = append(lf, f)
			}
		}
		atomic.AddInt64(&lineCases, cases)
		atomic.AddInt64(&lineEvals, ev)
		atomic.AddInt64(&lineExecs, ex)
		atomic.AddInt64(&lineNontrivial, nt)
		atomic.AddInt64(&lineAccepted, acc)
		atomic.AddInt64(&lineSkippedColon, skipped)
		if len(lf) > 0 {
			lmu.Lock()
			lfails = append(lfails, lf...)
			lmu.Unlock()
		}
	})
	sort.Slice(lfails, func(i, j int) bool {
		li, lj := len(decode(lfails[i].c)), len(decode(lfails[j].c))
		if li != lj {
			return li < lj
		}
		return lfails[i].c < lfails[j].c
	})
	var lineSets [nLineKinds]map[code]struct{}
	for i := range lineSets {
		lineSets[i] = map[code]struct{}{}
	}
	for _, f := range lfails {
		for kd := 0; kd < nLineKinds; kd++ {
			if f.mask&(1<<uint(kd)) != 0 {
				lineSets[kd][f.c] = struct{}{}
			}
		}
	}
	var lineFailing, lineMinimal int64
	for _, f := range lfails {
		l := decode(f.c)
		lineFailing++
		for kd := 0; kd < nLineKinds; kd++ {
			if f.mask&(1<<uint(kd)) == 0 {
				continue
			}
			set := lineSets[kd]
			if properSubsequences(l, func(c code) bool { _, ok := set[c]; return ok }) {
				continue
			}
			lineMinimal++
			v := variants[f.vi[kd]]
			po := evalList(l, false)
			_, _, _, _, det := evalLine(new(dnsdata.Codec), l, &po, v, true)
			line := v.rtype + strings.Join([]string{owner, v.target, "300", v.loc, fmt.Sprint(v.prio), listText(l)}, v.sep)
			allFingerprints = append(allFingerprints, lineKindNames[kd]+"/"+listName(l)+"/"+v.String())
			r.Violate(lineKindNames[kd]+"/"+listName(l)+"/"+v.String(), det[kd], map[string]interface{}{
				"line": line, "segments": strings.Split(listName(l), ";"), "variant": v.String(),
				"how": "c := new(dnsdata.Codec); recs, err := c.ConvertLn([]byte(line)); rec, _ := c.DecodeLn(line); rec.MarshalText()",
			})
		}
	}

	if os.Getenv("VERIF_C18_DUMP") != "" {
		sort.Strings(allFingerprints)
		for _, f := range allFingerprints {
			fmt.Fprintln(os.Stderr, "FP", f)
		}
	}

	// ---- samples (sequential, deterministic)
	var sampleCases []interface{}
	seenSample := map[code]bool{}
	for _, c := range sampleCodes {
		if seenSample[c] {
			continue
		}
		seenSample[c] = true
		l := decode(c)
		o := evalList(l, false)
		x := map[string]interface{}{"params": short(listText(l)), "expectation": o.exp.String(), "accepted": o.accepted,
			"wire_hex": short(hex.EncodeToString(o.wire)), "declared": short(strings.Join(o.declared, " ")), "disagreements": maskNames(o.mask)}
		sampleCases = append(sampleCases, x)
		r.Sample(x)
	}
	for _, c := range sampleCodes[len(sampleCodes)/2:] {
		l := decode(c)
		po := evalList(l, false)
		if !po.nontrivial || strings.ContainsAny(listText(l), ":,") {
			continue
		}
		v := variants[len(variants)-1]
		line := v.rtype + strings.Join([]string{owner, v.target, "300", v.loc, fmt.Sprint(v.prio), listText(l)}, v.sep)
		recs, err := new(dnsdata.Codec).ConvertLn([]byte(line))
		x := map[string]interface{}{"line": short(line), "err": fmt.Sprint(err)}
		if len(recs) == 1 {
			x["stored_value_hex"] = short(hex.EncodeToString(recs[0].Value))
		}
		sampleCases = append(sampleCases, x)
		r.Sample(x)
	}
	r.Set("sample_cases", sampleCases)

	// ---- evidence
	kf := map[string]int64{}
	km := map[string]int64{}
	for kd := 0; kd < nKinds; kd++ {
		if perKindFailing[kd] > 0 {
			kf[kindNames[kd]] = perKindFailing[kd]
			km[kindNames[kd]] = perKindMinimal[kd]
		}
	}
	alpha := map[string][]string{}
	for k := range fullByKey {
		for _, e := range fullByKey[k] {
			alpha[keyNames[k]] = append(alpha[keyNames[k]], short(e.text)+" ["+e.exp.String()+"]")
		}
	}
	for i := range extras {
		alpha["oversize_single_lists"] = append(alpha["oversize_single_lists"], extras[i].gen+" ["+extras[i].exp.String()+"]")
	}
	for i := range structural {
		alpha["structural"] = append(alpha["structural"], "'"+structural[i].text+"' ["+structural[i].exp.String()+"]")
	}
	r.Set("states", ct.lists+lineCases)
	r.Set("transitions", ct.execs+lineExecs)
	r.Set("evaluations", ct.evals+lineEvals)
	r.Set("traces_validated_against_impl", ct.lists+lineCases)
	r.Set("distinct_nontrivial", ct.nontrivial+lineNontrivial)
	r.Set("param_lists", ct.lists)
	r.Set("param_lists_accepted", ct.accepted)
	r.Set("param_lists_rejected", ct.rejected)
	r.Set("param_lists_nontrivial", ct.nontrivial)
	r.Set("param_lists_failing_any_oracle", ct.failing)
	r.Set("minimal_failing_cases", ct.minimal+lineMinimal)
	r.Set("failing_lists_by_kind", kf)
	r.Set("minimal_failing_lists_by_kind", km)
	r.Set("level_sizes", levelSizes)
	r.Set("max_distinct_keys_family_A", maxA)
	r.Set("max_segments_family_B", maxB)
	r.Set("max_segments_line_layer", maxL)
	r.Set("line_lists", len(lcodes))
	r.Set("line_variants", len(variants))
	r.Set("line_cases", lineCases)
	r.Set("line_cases_accepted", lineAccepted)
	r.Set("line_cases_not_expressible_with_colon_separator", lineSkippedColon)
	r.Set("line_lists_failing", lineFailing)
	r.Set("alphabet", alpha)
	r.Set("rule", fmt.Sprintf("family A: every ordered list of <=%d distinct keys of the 7 supported ones x every value of the per-key alphabet (%d values in all); family B: every sequence of <=%d segments over a %d-segment reduced alphabet (2 valid values per key, unknown keys, malformed segments, empty segment) with a repeated key or a structural segment; each list executed on the real ParamList.FromText/ToWire/ToText and judged by a hand-written acceptance model, a strict RFC 9460 decoder and miekg UnpackRR+PackRR, then ToText->FromText->ToWire compared; layer L: every A list of <=%d segments and B list of <=2 inside B/H lines x %d variants (type, separator, priority 1/0/65535, target ./name/empty, location) through the real Codec.ConvertLn, stored row compared byte-for-byte with head+priority+target+params, decoded by the strict rdata decoder and dns.UnpackRRWithHeader, and the line printed with MarshalText and converted again. states = lists + line cases; transitions = calls into repository code; evaluations = oracle comparisons; nontrivial = accepted, >=1 parameter, both decoders recover exactly the declared list", maxA, len(allElems)-len(structural)-len(extras), maxB, len(reduced), maxL, len(variants)))
	r.Assume = []string{
		"the declared meaning of every alphabet value is written by hand in alphabet.go; values outside the alphabet (other addresses, other ports, alpn ids with escapes, longer lists) are not covered",
		"miekg/dns v1.1.50 is executed, not modelled; its extra strictness (no IPv4-mapped ipv6hint, no empty alpn-id on pack) is reported under miekg-* kinds because the server hands stored rdata to exactly this unpacker/packer",
		"key layout (v1/v2) and owner-name handling of B/H lines belong to C01/C09 and are not judged here",
	}
	pprof.StopCPUProfile()
	r.Finish()
}

// replayText is the parameter text, or its generator when it is very long.
func replayText(l []*elem) string {
	if t := listText(l); len(t) <= 2000 {
		return t
	}
	var g []string
	for _, e := range l {
		if e.gen != "" {
			g = append(g, "<"+e.gen+">")
		} else {
			g = append(g, e.text)
		}
	}
	return strings.Join(g, ";")
}

func maskNames(m uint32) []string {
	out := []string{}
	for kd := 0; kd < nKinds; kd++ {
		if m&(1<<uint(kd)) != 0 {
			out = append(out, kindNames[kd])
		}
	}
	return out
}
