// svcbdec: a strict decoder of SVCB/HTTPS RDATA and SvcParams written from
// RFC 9460 (sections 2.2, 7 and 8). It shares no code with dnsdata/svcb nor
// with miekg/dns; it only uses encoding/hex and fmt for rendering.
package main

import (
	"encoding/hex"
	"fmt"
	"strings"
)

// rawParam is one SvcParam as framed on the wire.
type rawParam struct {
	key uint16
	val []byte
}

// decodeFraming splits a SvcParams byte string into (key,len,value) triples.
// RFC 9460 2.2: 2-octet key, 2-octet length, value; the triples fill the
// field exactly.
func decodeFraming(b []byte) ([]rawParam, error) {
	var out []rawParam
	for off := 0; off < len(b); {
		if len(b)-off < 4 {
			return out, fmt.Errorf("truncated SvcParam header at offset %d", off)
		}
		key := uint16(b[off])<<8 | uint16(b[off+1])
		n := int(b[off+2])<<8 | int(b[off+3])
		off += 4
		if len(b)-off < n {
			return out, fmt.Errorf("SvcParam key %d: length %d overruns the field (%d left)", key, n, len(b)-off)
		}
		out = append(out, rawParam{key, b[off : off+n]})
		off += n
	}
	return out, nil
}

// checkOrder demands strictly increasing keys (RFC 9460 2.2: "SvcParamKeys
// SHALL appear in increasing numeric order", and a key appears at most once).
func checkOrder(ps []rawParam) error {
	for i := 1; i < len(ps); i++ {
		if ps[i].key <= ps[i-1].key {
			return fmt.Errorf("key %d follows key %d: not strictly increasing", ps[i].key, ps[i-1].key)
		}
	}
	return nil
}

// canonValue validates the value of one parameter against its RFC 9460 wire
// form and renders it canonically. present reports whether a key number is in
// the same SvcParams (needed by "mandatory").
func canonValue(p rawParam, present func(uint16) bool) (string, error) {
	v := p.val
	switch p.key {
	case 0: // mandatory, section 8
		if len(v) == 0 || len(v)%2 != 0 {
			return "", fmt.Errorf("mandatory: length %d is not a positive multiple of 2", len(v))
		}
		var ks []string
		prev := -1
		for i := 0; i < len(v); i += 2 {
			k := int(v[i])<<8 | int(v[i+1])
			if k == 0 {
				return "", fmt.Errorf("mandatory lists itself")
			}
			if k <= prev {
				return "", fmt.Errorf("mandatory: key %d after %d, not strictly increasing", k, prev)
			}
			if !present(uint16(k)) {
				return "", fmt.Errorf("mandatory lists key %d which is absent from the SvcParams", k)
			}
			prev = k
			ks = append(ks, fmt.Sprint(k))
		}
		return "0:mandatory[" + strings.Join(ks, ",") + "]", nil
	case 1: // alpn, section 7.1.1: one or more alpn-id = 1*255OCTET, each with a 1-octet length
		if len(v) == 0 {
			return "", fmt.Errorf("alpn: empty value")
		}
		var ids []string
		for off := 0; off < len(v); {
			n := int(v[off])
			off++
			if n == 0 {
				return "", fmt.Errorf("alpn: zero-length alpn-id")
			}
			if len(v)-off < n {
				return "", fmt.Errorf("alpn: alpn-id of length %d overruns the value (%d left)", n, len(v)-off)
			}
			ids = append(ids, hex.EncodeToString(v[off:off+n]))
			off += n
		}
		return "1:alpn[" + strings.Join(ids, ",") + "]", nil
	case 2: // no-default-alpn, section 7.1.1: value MUST be empty
		if len(v) != 0 {
			return "", fmt.Errorf("no-default-alpn: non-empty value")
		}
		return "2:nda", nil
	case 3: // port, section 7.2: exactly two octets, network order
		if len(v) != 2 {
			return "", fmt.Errorf("port: length %d != 2", len(v))
		}
		return fmt.Sprintf("3:port[%d]", int(v[0])<<8|int(v[1])), nil
	case 4: // ipv4hint, section 7.3: non-empty sequence of 4-octet addresses
		if len(v) == 0 || len(v)%4 != 0 {
			return "", fmt.Errorf("ipv4hint: length %d is not a positive multiple of 4", len(v))
		}
		return "4:v4[" + chunks(v, 4) + "]", nil
	case 5: // ech: opaque here (RFC 9460 reserves the key; format defined elsewhere)
		return "5:ech[" + hex.EncodeToString(v) + "]", nil
	case 6: // ipv6hint, section 7.3: non-empty sequence of 16-octet addresses
		if len(v) == 0 || len(v)%16 != 0 {
			return "", fmt.Errorf("ipv6hint: length %d is not a positive multiple of 16", len(v))
		}
		return "6:v6[" + chunks(v, 16) + "]", nil
	}
	return fmt.Sprintf("%d:raw[%s]", p.key, hex.EncodeToString(v)), nil
}

func chunks(v []byte, n int) string {
	var s []string
	for i := 0; i < len(v); i += n {
		s = append(s, hex.EncodeToString(v[i:i+n]))
	}
	return strings.Join(s, ",")
}

// decodeParams is the complete strict decode: framing, order, values.
// The error kind is "framing", "order" or "value".
func decodeParams(b []byte) (canon []string, kind string, err error) {
	ps, err := decodeFraming(b)
	if err != nil {
		return nil, "framing", err
	}
	if err := checkOrder(ps); err != nil {
		return nil, "order", err
	}
	present := func(k uint16) bool {
		for _, p := range ps {
			if p.key == k {
				return true
			}
		}
		return false
	}
	for _, p := range ps {
		c, err := canonValue(p, present)
		if err != nil {
			return nil, "value", err
		}
		canon = append(canon, c)
	}
	return canon, "", nil
}

// decodeRdata splits SVCB RDATA (RFC 9460 2.2): 2-octet SvcPriority, an
// uncompressed fully-qualified TargetName, then SvcParams.
func decodeRdata(b []byte) (prio uint16, target string, params []byte, err error) {
	if len(b) < 3 {
		return 0, "", nil, fmt.Errorf("rdata of %d octets is too short", len(b))
	}
	prio = uint16(b[0])<<8 | uint16(b[1])
	off := 2
	var labels []string
	for {
		if off >= len(b) {
			return 0, "", nil, fmt.Errorf("target name runs past the rdata")
		}
		n := int(b[off])
		off++
		if n == 0 {
			break
		}
		if n > 63 {
			return 0, "", nil, fmt.Errorf("target name: label octet %#x (compression or overlong label)", n)
		}
		if len(b)-off < n {
			return 0, "", nil, fmt.Errorf("target name: label overruns the rdata")
		}
		labels = append(labels, string(b[off:off+n]))
		off += n
		if off-2 > 255 {
			return 0, "", nil, fmt.Errorf("target name longer than 255 octets")
		}
	}
	return prio, strings.Join(labels, ".") + ".", b[off:], nil
}
