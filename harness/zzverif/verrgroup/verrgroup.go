// Package verrgroup mirrors golang.org/x/sync/errgroup.Group (zero value, Go,
// Wait) on scheduler threads; without an active exploration it delegates.
package verrgroup

import (
	"golang.org/x/sync/errgroup"

	"github.com/facebookincubator/dns/dnsrocks/zzverif/vsched"
)

// Group mirrors errgroup.Group.
type Group struct {
	real     errgroup.Group
	children []*vsched.Thread
	err      error
	usedReal bool
}

// Go runs f on a new thread.
func (g *Group) Go(f func() error) {
	if !vsched.Active() {
		g.usedReal = true
		g.real.Go(f)
		return
	}
	t := vsched.Spawn(vsched.CurName()+"/eg", func() {
		if err := f(); err != nil {
			// first error wins; threads run one at a time so no lock is needed
			if g.err == nil {
				g.err = err
			}
		}
	})
	g.children = append(g.children, t)
}

// Wait blocks until all functions have returned and returns the first error.
func (g *Group) Wait() error {
	if g.usedReal || !vsched.Active() {
		return g.real.Wait()
	}
	kids := g.children
	vsched.SyncOp(vsched.OpWait, g, "errgroup.Wait", false, func() bool {
		for _, t := range kids {
			if !t.Done() {
				return false
			}
		}
		return true
	})
	for _, t := range kids {
		vsched.JoinVC(t)
	}
	return g.err
}
