// Package vtime replaces the wall clock, tickers and sleeps of package time
// with a virtual clock owned by the exploration. Without an active exploration
// it delegates to package time.
package vtime

import (
	"time"

	"github.com/facebookincubator/dns/dnsrocks/zzverif/vsched"
)

// Now mirrors time.Now.
func Now() time.Time {
	if s := vsched.Cur(); s != nil {
		return time.Unix(0, s.Now())
	}
	return time.Now()
}

// Since mirrors time.Since.
func Since(t time.Time) time.Duration { return Now().Sub(t) }

// Sleep advances the virtual clock (a scheduling point).
func Sleep(d time.Duration) {
	if s := vsched.Cur(); s != nil {
		vsched.SyncOp(vsched.OpPoint, nil, "sleep", true, nil)
		s.AdvanceClock(int64(d))
		return
	}
	time.Sleep(d)
}

// Advance moves the virtual clock forward (harness use).
func Advance(d time.Duration) {
	if s := vsched.Cur(); s != nil {
		s.AdvanceClock(int64(d))
	}
}

// Ticker mirrors time.Ticker.
type Ticker struct {
	C       chan time.Time
	real    *time.Ticker
	period  int64
	next    int64
	stopped bool
	Ticks   int
}

// MaxTicks bounds the number of ticks each ticker delivers in one execution
// (the explicit horizon that keeps executions finite).
var MaxTicks = 3

// NewTicker mirrors time.NewTicker. Under exploration a tick is an environment
// action enabled whenever the virtual clock has reached the next tick time;
// like the real ticker it drops the tick if the channel is full.
func NewTicker(d time.Duration) *Ticker {
	s := vsched.Cur()
	if s == nil {
		rt := time.NewTicker(d)
		t := &Ticker{real: rt}
		// expose the real channel through a forwarding goroutine-free trick: C must be
		// a bidirectional chan for select rewriting, so forward.
		t.C = make(chan time.Time, 1)
		go func() {
			for x := range rt.C {
				select {
				case t.C <- x:
				default:
				}
			}
		}()
		return t
	}
	t := &Ticker{C: make(chan time.Time, 1), period: int64(d), next: s.Now() + int64(d)}
	vsched.NameChan(t.C, "ticker.C")
	vsched.GoEnv("ticker", func() {
		for t.Ticks < MaxTicks {
			vsched.SyncOp(vsched.OpEnv, t, "tick", true, func() bool { return !t.stopped && s.Now() >= t.next })
			if t.stopped || vsched.Unwinding() {
				return
			}
			now := s.Now()
			vsched.TrySendNoYield(t.C, time.Unix(0, now))
			t.Ticks++
			t.next += t.period * (1 + (now-t.next)/t.period)
		}
	})
	return t
}

// Stop mirrors (*time.Ticker).Stop.
func (t *Ticker) Stop() {
	if t.real != nil {
		t.real.Stop()
		return
	}
	t.stopped = true
}
