package vsched

import (
	"fmt"
	"os"
	"runtime"
	"strings"
	"time"
)

// Config bounds an exploration.
type Config struct {
	Bound     int   // maximum deviation cost (preemptions + non-default environment answers); <0 = unbounded
	MaxSteps  int   // per-execution step horizon (livelock detection); default 20000
	MaxExecs  int64 // cap on executions (0 = none)
	Deadline  time.Time
	Shard     int
	NShards   int
	LogEvents bool // record the event log of every execution (slower); replays always log
	AccessPts bool // watch-list accesses are scheduling points
	Iterative bool // explore bounds 0..Bound one after the other (reports the highest bound completed)
	NoPrune   bool // disable state-signature pruning (see sig.go)
}

// Result describes one execution.
type Result struct {
	Choices  []int
	Points   []Point
	Events   []Event
	Steps    int
	Deadlock string
	Livelock bool
	Panics   []string
	Races    []string
	Diverged string
	Cost     int
	Values   map[string]interface{}
	Pruned   bool // the execution was cut at its first new choice point: an equivalent state was already expanded
	SigA     uint64
}

// Bad reports whether the scheduler itself detected a problem.
func (r *Result) Bad() bool {
	return r.Deadlock != "" || r.Livelock || len(r.Panics) > 0 || len(r.Races) > 0
}

// Problems lists scheduler-detected problems as short strings.
func (r *Result) Problems() []string {
	var out []string
	if r.Deadlock != "" {
		out = append(out, "deadlock: "+r.Deadlock)
	}
	if r.Livelock {
		out = append(out, "livelock/horizon exceeded")
	}
	for _, p := range r.Panics {
		out = append(out, "panic: "+firstLine(p))
	}
	for _, p := range r.Races {
		out = append(out, "race: "+p)
	}
	return out
}

func firstLine(s string) string {
	if i := strings.IndexByte(s, '\n'); i >= 0 {
		return s[:i]
	}
	return s
}

// EventLog renders the event log.
func (r *Result) EventLog() []string {
	out := make([]string, len(r.Events))
	for i, e := range r.Events {
		out[i] = fmt.Sprintf("%d %s %s", e.Step, e.Thread, e.Op)
	}
	return out
}

// Stats summarises an exploration.
type Stats struct {
	Execs          int64
	Transitions    int64
	ChoicePoints   int64
	MaxPoints      int
	MaxSteps       int
	BoundCompleted int // highest bound fully explored (-1 = none)
	Capped         bool
	PerBound       []int64
	Pruned         int64 // subtrees skipped because an equivalent state had been expanded
	States         int64 // distinct state signatures seen at choice points
}

func altCost(p Point, alt int) int {
	if alt == 0 {
		return 0
	}
	if p.Data {
		return p.DataCost
	}
	if p.CurEnabled {
		return 1
	}
	if alt >= p.NonEnvN && p.NonEnvN > 0 {
		return 1
	}
	return 0
}

var execEpoch uint64

var progress = os.Getenv("VSCHED_PROGRESS") != ""

// Epoch identifies the current execution; shim objects that outlive an
// execution (package-level mutexes, pools) reset their scheduler-side state
// when they are first touched in a new epoch, so an execution that was cut
// while a thread held such an object cannot poison the next one.
func Epoch() uint64 { return execEpoch }

// RunOnce executes body under the scheduler following prefix, then choice 0.
func RunOnce(cfg Config, prefix []int, body func()) *Result {
	return runOnce(cfg, prefix, body, nil)
}

func runOnce(cfg Config, prefix []int, body func(), frontier func([3]uint64) bool) *Result {
	if active != nil {
		panic("vsched: nested exploration")
	}
	maxSteps := cfg.MaxSteps
	if maxSteps <= 0 {
		maxSteps = 20000
	}
	s := &Sched{prefix: prefix, maxSteps: maxSteps, finished: make(chan struct{}), raceSeen: map[string]bool{},
		chans: map[uintptr]*chanState{}, mem: map[uintptr]*memState{}, objNames: map[interface{}]string{},
		logEvents: cfg.LogEvents, accessPts: cfg.AccessPts, Values: map[string]interface{}{}, now: 1_000_000_000_000, frontier: frontier}
	execEpoch++
	active = s
	main := s.newThread("main", false, false)
	main.pending = &op{kind: OpStart, label: "main"}
	go func() {
		<-main.wake
		main.started = true
		main.pending = nil
		defer s.threadEnd(main)
		body()
	}()
	s.cur = main
	main.wake <- struct{}{}
	select {
	case <-s.finished:
	case <-time.After(120 * time.Second):
		fmt.Fprintf(os.Stderr, "INFRA-ERROR: execution did not finish within 120 s (a thread blocked outside the scheduler?) prefix=%v\n", prefix)
		buf := make([]byte, 1<<20)
		n := runtime.Stack(buf, true)
		os.Stderr.Write(buf[:n])
		os.Exit(2)
	}
	active = nil
	if len(s.atEnd) > 0 {
		// make the real channels reflect the scheduler-side queues, so that clean-up code running in
		// pass-through mode (e.g. closing a RocksDB whose iterator pool was filled under the scheduler) works
		s.flushChannels()
	}
	normal := !s.Pruned && s.Deadlock == "" && !s.Livelock && len(s.Panics) == 0 && s.Diverged == ""
	for i := len(s.atEnd) - 1; i >= 0; i-- {
		s.atEnd[i](normal) // harness cleanup of real resources, outside the exploration (pass-through mode)
	}
	res := &Result{Points: s.points, Events: s.events, Steps: s.steps, Deadlock: s.Deadlock, Livelock: s.Livelock,
		Panics: s.Panics, Races: s.Races, Diverged: s.Diverged, Values: s.Values, Pruned: s.Pruned, SigA: s.sigA}
	res.Choices = make([]int, len(s.points))
	for i, p := range s.points {
		res.Choices[i] = p.Chosen
		res.Cost += altCost(p, p.Chosen)
	}
	if s.Diverged != "" {
		fmt.Fprintf(os.Stderr, "INFRA-ERROR: replay diverged: %s (prefix %v)\n", s.Diverged, prefix)
		os.Exit(2)
	}
	return res
}

// Explore enumerates every execution of the program produced by mk whose
// deviation cost is within cfg.Bound. mk is called once per execution and
// returns the main-thread body and a check called with the execution's result.
func Explore(cfg Config, mk func() (body func(), check func(*Result))) Stats {
	if cfg.NShards <= 0 {
		cfg.NShards = 1
	}
	st := Stats{BoundCompleted: -1}
	bounds := []int{cfg.Bound}
	if cfg.Iterative && cfg.Bound >= 0 {
		bounds = nil
		for b := 0; b <= cfg.Bound; b++ {
			bounds = append(bounds, b)
		}
	}
	for _, b := range bounds {
		e := &explorer{cfg: cfg, bound: b, mk: mk}
		e.explore(nil, 0, true)
		st.PerBound = append(st.PerBound, e.execs)
		if e.capped {
			st.Capped = true
			st.Execs += e.execs
			st.Transitions += e.transitions
			st.ChoicePoints += e.points
			break
		}
		// the last completed bound subsumes the earlier ones: report its counts
		st.Execs, st.Transitions, st.ChoicePoints = e.execs, e.transitions, e.points
		st.Pruned, st.States = e.pruned, int64(len(e.cache))
		st.BoundCompleted = b
		if e.maxPoints > st.MaxPoints {
			st.MaxPoints = e.maxPoints
		}
		if e.maxSteps > st.MaxSteps {
			st.MaxSteps = e.maxSteps
		}
	}
	return st
}

type explorer struct {
	cfg         Config
	bound       int
	mk          func() (func(), func(*Result))
	execs       int64
	transitions int64
	points      int64
	maxPoints   int
	maxSteps    int
	capped      bool
	topCounter  int
	cache       map[[3]uint64]int
	pruned      int64
}

func (e *explorer) run(prefix []int, remaining int) *Result {
	body, check := e.mk()
	var fr func([3]uint64) bool
	if !e.cfg.NoPrune {
		if e.cache == nil {
			e.cache = map[[3]uint64]int{}
		}
		fr = func(k [3]uint64) bool {
			if old, ok := e.cache[k]; ok && old >= remaining {
				return true
			}
			e.cache[k] = remaining
			return false
		}
	}
	res := runOnce(e.cfg, prefix, body, fr)
	if progress && (e.execs+e.pruned)%2000 == 0 {
		fmt.Fprintf(os.Stderr, "vsched progress: bound=%d execs=%d pruned=%d states=%d steps=%d prefix_len=%d\n", e.bound, e.execs, e.pruned, len(e.cache), e.transitions, len(prefix))
	}
	if res.Pruned {
		e.pruned++
		e.transitions += int64(res.Steps)
		return res
	}
	e.execs++
	e.transitions += int64(res.Steps)
	e.points += int64(len(res.Points))
	if len(res.Points) > e.maxPoints {
		e.maxPoints = len(res.Points)
	}
	if res.Steps > e.maxSteps {
		e.maxSteps = res.Steps
	}
	if len(res.Choices) < len(prefix) {
		fmt.Fprintf(os.Stderr, "INFRA-ERROR: replay ended after %d of %d prefix choices (nondeterministic program?) problems=%v panics=%v\n", len(res.Choices), len(prefix), res.Problems(), res.Panics)
		os.Exit(2)
	}
	for i := range prefix {
		if res.Choices[i] != prefix[i] {
			fmt.Fprintf(os.Stderr, "INFRA-ERROR: replay diverged at point %d (prefix %v got %v)\n", i, prefix, res.Choices)
			os.Exit(2)
		}
	}
	if check != nil {
		check(res)
	}
	return res
}

func (e *explorer) explore(prefix []int, costSoFar int, top bool) {
	if e.capped {
		return
	}
	if (e.cfg.MaxExecs > 0 && e.execs >= e.cfg.MaxExecs) || (!e.cfg.Deadline.IsZero() && e.execs%64 == 0 && time.Now().After(e.cfg.Deadline)) {
		e.capped = true
		return
	}
	var res *Result
	if top && e.cfg.Shard != 0 {
		// the root execution is owned by shard 0; other shards run it unchecked to learn its shape
		body, _ := e.mk()
		res = RunOnce(e.cfg, prefix, body)
	} else {
		rem := 1 << 30
		if e.bound >= 0 {
			rem = e.bound - costSoFar
		}
		res = e.run(prefix, rem)
	}
	cost := 0
	for i := 0; i < len(prefix); i++ {
		cost += altCost(res.Points[i], res.Choices[i])
	}
	for i := len(prefix); i < len(res.Points); i++ {
		p := res.Points[i]
		for alt := 1; alt < p.N; alt++ {
			c := cost + altCost(p, alt)
			if e.bound >= 0 && c > e.bound {
				continue
			}
			if top {
				e.topCounter++
				if e.topCounter%e.cfg.NShards != e.cfg.Shard {
					continue
				}
			}
			np := make([]int, i+1)
			copy(np, res.Choices[:i])
			np[i] = alt
			e.explore(np, c, false)
			if e.capped {
				return
			}
		}
		// choice 0 at point i costs nothing
	}
}
