package vsched

import (
	"reflect"
)

type qitem struct {
	v  interface{}
	vc VC
}

type chanState struct {
	ref     interface{} // keeps the channel alive so its address is not reused within an execution
	cap     int
	queue   []qitem
	closed  bool
	closeVC VC
	name    string
}

// SelCase is one case of a select (or a plain send/receive).
type SelCase struct {
	Send bool
	ch   interface{}
	key  uintptr
	val  interface{}
}

type selState struct {
	cases      []SelCase
	hasDefault bool
	satisfied  bool // a partner completed one of the cases while we were parked
	chosen     int
	val        interface{}
	ok         bool
	vc         VC
}

// Sel is the result of Select.
type Sel struct {
	Index int // chosen case, -1 for default
	val   interface{}
	ok    bool
}

func chanKey(ch interface{}) uintptr {
	v := reflect.ValueOf(ch)
	if v.Kind() != reflect.Chan || v.IsNil() {
		return 0
	}
	return v.Pointer()
}

func (s *Sched) chanOf(ch interface{}, key uintptr) *chanState {
	if key == 0 {
		return nil
	}
	c := s.chans[key]
	if c == nil {
		c = &chanState{ref: ch, cap: reflect.ValueOf(ch).Cap()}
		s.chans[key] = c
	}
	return c
}

// parkedPartner finds a parked thread (other than self) with an unsatisfied
// pending op holding a case on channel key in the opposite direction.
func (s *Sched) parkedPartner(self *Thread, key uintptr, wantSend bool) (*Thread, int) {
	for _, t := range s.threads {
		if t == self || t.done || t.pending == nil || t.pending.sel == nil || t.pending.sel.satisfied {
			continue
		}
		for i, c := range t.pending.sel.cases {
			if c.key == key && c.Send == wantSend {
				return t, i
			}
		}
	}
	return nil, -1
}

func (s *Sched) caseReady(self *Thread, c SelCase) bool {
	if c.key == 0 {
		return false // nil channel: never ready
	}
	cs := s.chanOf(c.ch, c.key)
	if c.Send {
		if cs.closed {
			return true // will panic, as Go does
		}
		if len(cs.queue) < cs.cap {
			return true
		}
		if cs.cap == 0 {
			p, _ := s.parkedPartner(self, c.key, false)
			return p != nil
		}
		return false
	}
	if len(cs.queue) > 0 || cs.closed {
		return true
	}
	p, _ := s.parkedPartner(self, c.key, true)
	return p != nil
}

// doSelect is the common implementation of send, receive and select.
func (s *Sched) doSelect(kind OpKind, cases []SelCase, hasDefault bool, label string) Sel {
	t := s.cur
	st := &selState{cases: cases, hasDefault: hasDefault}
	if t.unwinding {
		return s.performUnwinding(st)
	}
	o := &op{kind: kind, label: label, sel: st}
	if len(cases) == 1 {
		o.obj = cases[0].key
		o.write = true
	}
	o.enabled = func() bool {
		if st.satisfied || hasDefault {
			return true
		}
		for _, c := range cases {
			if s.caseReady(t, c) {
				return true
			}
		}
		return false
	}
	s.yield(o)
	if t.unwinding {
		return s.performUnwinding(st)
	}
	if st.satisfied {
		t.vc = t.vc.join(st.vc)
		s.event(t, kind, s.chanOf(cases[st.chosen].ch, cases[st.chosen].key), "", true)
		return Sel{Index: st.chosen, val: st.val, ok: st.ok}
	}
	var ready []int
	for i, c := range cases {
		if s.caseReady(t, c) {
			ready = append(ready, i)
		}
	}
	if len(ready) == 0 {
		// default branch: the decision depended on every channel of the select
		for _, c := range cases {
			if c.key != 0 {
				s.event(t, kind, s.chanOf(c.ch, c.key), "default", false)
			}
		}
		return Sel{Index: -1}
	}
	pick := ready[0]
	if len(ready) > 1 {
		pick = ready[Choose(len(ready), 0, "select-case")]
	}
	c := cases[pick]
	cs := s.chanOf(c.ch, c.key)
	s.event(t, kind, cs, "", true)
	if c.Send {
		if cs.closed {
			panic("send on closed channel")
		}
		if p, i := s.parkedPartner(t, c.key, false); p != nil && len(cs.queue) == 0 {
			// direct hand-off to a parked receiver
			ps := p.pending.sel
			ps.satisfied, ps.chosen, ps.val, ps.ok = true, i, c.val, true
			ps.vc = t.vc.clone()
			t.vc = t.vc.tick(t.id)
			if cs.cap == 0 {
				t.vc = t.vc.join(p.vc) // unbuffered: the receive happens before the send completes
			}
			return Sel{Index: pick}
		}
		cs.queue = append(cs.queue, qitem{v: c.val, vc: t.vc.clone()})
		t.vc = t.vc.tick(t.id)
		return Sel{Index: pick}
	}
	// receive
	if len(cs.queue) > 0 {
		it := cs.queue[0]
		cs.queue = cs.queue[1:]
		t.vc = t.vc.join(it.vc)
		// a sender parked on a full buffered channel can now proceed by itself (it re-evaluates readiness)
		return Sel{Index: pick, val: it.v, ok: true}
	}
	if p, i := s.parkedPartner(t, c.key, true); p != nil {
		ps := p.pending.sel
		v := ps.cases[i].val
		if cs.closed {
			// sender will panic when it runs; we see the close
			t.vc = t.vc.join(cs.closeVC)
			return Sel{Index: pick, val: nil, ok: false}
		}
		ps.satisfied, ps.chosen = true, i
		t.vc = t.vc.join(p.vc)
		ps.vc = t.vc.clone()
		t.vc = t.vc.tick(t.id)
		return Sel{Index: pick, val: v, ok: true}
	}
	// closed and drained
	t.vc = t.vc.join(cs.closeVC)
	return Sel{Index: pick, val: nil, ok: false}
}

// performUnwinding applies a non-blocking best effort while a thread unwinds.
func (s *Sched) performUnwinding(st *selState) Sel {
	for i, c := range st.cases {
		if c.key == 0 {
			continue
		}
		cs := s.chanOf(c.ch, c.key)
		if c.Send {
			if !cs.closed {
				cs.queue = append(cs.queue, qitem{v: c.val})
			}
			return Sel{Index: i}
		}
		if len(cs.queue) > 0 {
			it := cs.queue[0]
			cs.queue = cs.queue[1:]
			return Sel{Index: i, val: it.v, ok: true}
		}
		return Sel{Index: i}
	}
	return Sel{Index: -1}
}

// Send is `ch <- v`.
func Send[T any](ch chan<- T, v T) {
	s := active
	if s == nil {
		ch <- v
		return
	}
	k := chanKey(ch)
	s.doSelect(OpSend, []SelCase{{Send: true, ch: ch, key: k, val: v}}, false, s.chanName(k))
}

// Recv is `<-ch`.
func Recv[T any](ch <-chan T) T {
	v, _ := Recv2(ch)
	return v
}

// Recv2 is `v, ok := <-ch`.
func Recv2[T any](ch <-chan T) (T, bool) {
	s := active
	if s == nil {
		v, ok := <-ch
		return v, ok
	}
	k := chanKey(ch)
	r := s.doSelect(OpRecv, []SelCase{{ch: ch, key: k}}, false, s.chanName(k))
	return unbox[T](r.val), r.ok
}

func unbox[T any](v interface{}) T {
	if v == nil {
		var z T
		return z
	}
	return v.(T)
}

// Close is `close(ch)`.
func Close[T any](ch chan<- T) {
	s := active
	if s == nil {
		close(ch)
		return
	}
	k := chanKey(ch)
	if k == 0 {
		panic("close of nil channel")
	}
	if !s.cur.unwinding {
		s.yield(&op{kind: OpClose, obj: k, label: s.chanName(k), write: true})
	}
	cs := s.chanOf(ch, k)
	s.event(s.cur, OpClose, cs, "", true)
	if cs.closed {
		if s.cur.unwinding {
			return
		}
		panic("close of closed channel")
	}
	cs.closed = true
	cs.closeVC = s.cur.vc.clone()
	s.cur.vc = s.cur.vc.tick(s.cur.id)
}

// CloseRecv closes a receive-only view's underlying channel (used by vctx / vtime).
func closeAny(s *Sched, ch interface{}) {
	k := chanKey(ch)
	cs := s.chanOf(ch, k)
	s.event(s.cur, OpClose, cs, "", true)
	if !cs.closed {
		cs.closed = true
		cs.closeVC = s.cur.vc.clone()
		s.cur.vc = s.cur.vc.tick(s.cur.id)
	}
}

func (s *Sched) chanName(k uintptr) string {
	if n, ok := s.objNames[k]; ok {
		return n
	}
	n := "chan" + itoa(len(s.objNames))
	s.objNames[k] = n
	return n
}

func itoa(i int) string {
	if i == 0 {
		return "0"
	}
	var b []byte
	for i > 0 {
		b = append([]byte{byte('0' + i%10)}, b...)
		i /= 10
	}
	return string(b)
}

// NameChan names a channel for logs.
func NameChan(ch interface{}, name string) {
	if s := active; s != nil {
		s.objNames[chanKey(ch)] = name
	}
}

// RecvCase builds a receive case for Select.
func RecvCase[T any](ch <-chan T) SelCase { return SelCase{ch: ch, key: chanKey(ch)} }

// SendCase builds a send case for Select.
func SendCase[T any](ch chan<- T, v T) SelCase {
	return SelCase{Send: true, ch: ch, key: chanKey(ch), val: v}
}

// Select is the rewritten `select`. The explorer, not the Go runtime, chooses
// among ready cases.
func Select(hasDefault bool, cases ...SelCase) Sel {
	s := active
	if s == nil {
		return realSelect(hasDefault, cases)
	}
	return s.doSelect(OpSelect, cases, hasDefault, "select")
}

// SelRecv returns the value received by the chosen receive case; ch is only
// used to infer the element type.
func SelRecv[T any](r Sel, ch <-chan T) T { return unbox[T](r.val) }

// SelRecv2 is SelRecv for `v, ok := <-ch` cases.
func SelRecv2[T any](r Sel, ch <-chan T) (T, bool) { return unbox[T](r.val), r.ok }

func realSelect(hasDefault bool, cases []SelCase) Sel {
	rc := make([]reflect.SelectCase, 0, len(cases)+1)
	for _, c := range cases {
		if c.Send {
			rc = append(rc, reflect.SelectCase{Dir: reflect.SelectSend, Chan: reflect.ValueOf(c.ch), Send: reflect.ValueOf(c.val)})
		} else {
			rc = append(rc, reflect.SelectCase{Dir: reflect.SelectRecv, Chan: reflect.ValueOf(c.ch)})
		}
	}
	if hasDefault {
		rc = append(rc, reflect.SelectCase{Dir: reflect.SelectDefault})
	}
	i, v, ok := reflect.Select(rc)
	if hasDefault && i == len(cases) {
		return Sel{Index: -1}
	}
	var val interface{}
	if !cases[i].Send && ok {
		val = v.Interface()
	}
	return Sel{Index: i, val: val, ok: ok}
}

// CloseNoYield closes a channel as part of the running thread's current step.
func CloseNoYield[T any](ch chan T) {
	if s := active; s != nil {
		closeAny(s, ch)
		return
	}
	close(ch)
}

// TrySendNoYield enqueues v if the (buffered) channel has room, as part of the
// current step; reports whether it was enqueued (ticker semantics: drop if full).
func TrySendNoYield[T any](ch chan T, v T) bool {
	s := active
	if s == nil {
		select {
		case ch <- v:
			return true
		default:
			return false
		}
	}
	k := chanKey(ch)
	cs := s.chanOf(ch, k)
	s.event(s.cur, OpSend, cs, "", true)
	if cs.closed {
		return false
	}
	if p, i := s.parkedPartner(s.cur, k, false); p != nil && len(cs.queue) == 0 {
		ps := p.pending.sel
		ps.satisfied, ps.chosen, ps.val, ps.ok = true, i, v, true
		ps.vc = s.cur.vc.clone()
		s.cur.vc = s.cur.vc.tick(s.cur.id)
		return true
	}
	if len(cs.queue) < cs.cap {
		cs.queue = append(cs.queue, qitem{v: v, vc: s.cur.vc.clone()})
		s.cur.vc = s.cur.vc.tick(s.cur.id)
		return true
	}
	return false
}

// flushChannels copies what the scheduler-side channel model holds into the
// real channels (best effort, non-blocking).
func (s *Sched) flushChannels() {
	for _, cs := range s.chans {
		func() {
			defer func() { recover() }()
			rv := reflect.ValueOf(cs.ref)
			if rv.Kind() != reflect.Chan || rv.Type().ChanDir()&reflect.SendDir == 0 {
				return
			}
			for _, it := range cs.queue {
				v := reflect.Zero(rv.Type().Elem())
				if it.v != nil {
					v = reflect.ValueOf(it.v)
				}
				rv.TrySend(v)
			}
			cs.queue = nil
			if cs.closed {
				rv.Close()
			}
		}()
	}
}
