// Package vsched is a cooperative controlled scheduler and stateless
// depth-first explorer for Go code whose synchronisation operations have been
// redirected to the shims in the sibling packages (vsync, verrgroup, vctx,
// vtime, vlru) by harness/vrewrite.
//
// Exactly one registered thread (goroutine) runs at a time. Before each hooked
// operation a thread publishes the operation and the scheduler decides which
// thread performs its pending operation next. A choice sequence determines an
// execution completely; Explore enumerates all choice sequences whose
// deviation cost (preemptions + non-default environment answers) is within a
// bound. When no exploration is active every shim falls through to the real
// primitive.
package vsched

import (
	"fmt"
	"runtime/debug"
	"sort"
	"strings"
)

// OpKind identifies a hooked operation.
type OpKind int

const (
	OpStart OpKind = iota // first step of a new thread
	OpLock
	OpUnlock
	OpRLock
	OpRUnlock
	OpWLockAnnounce
	OpWLockAcquire
	OpWait   // WaitGroup.Wait / join
	OpWGAdd  // WaitGroup.Add/Done
	OpSend
	OpRecv
	OpClose
	OpSelect
	OpPoint  // plain scheduling point on an object (read or write)
	OpAccess // memory access scheduling point
	OpEnv    // environment action (timer fire, tick, completion)
	OpJoin
	OpOnce
)

var kindNames = map[OpKind]string{OpStart: "start", OpLock: "lock", OpUnlock: "unlock", OpRLock: "rlock", OpRUnlock: "runlock",
	OpWLockAnnounce: "wlock-announce", OpWLockAcquire: "wlock-acquire", OpWait: "wait", OpWGAdd: "wg-add", OpSend: "send", OpRecv: "recv",
	OpClose: "close", OpSelect: "select", OpPoint: "point", OpAccess: "access", OpEnv: "env", OpJoin: "join", OpOnce: "once"}

func (k OpKind) String() string { return kindNames[k] }

// op is a pending operation of a parked thread.
type op struct {
	kind    OpKind
	obj     interface{} // object identity (pointer)
	label   string
	write   bool
	enabled func() bool // nil = always enabled
	// select support
	sel *selState
}

// Thread is a registered goroutine.
type Thread struct {
	id      int
	name    string
	env     bool // environment pseudo-thread: scheduled last, choosing it early is a deviation
	daemon  bool // may remain blocked at the end without it being a deadlock
	wake    chan struct{}
	pending *op
	done    bool
	started bool
	vc      VC
	s       *Sched
	endVC   VC
	// state-signature bookkeeping (see sig.go)
	stable  uint64 // hash of the spawn path: stable across interleavings
	nOps    uint32
	nKids   uint32
	dc      dclock // dependency clock: sync + data conflicts
	endDC   dclock
	// unwinding: the execution was aborted and this thread is running its
	// deferred calls (or recovered the abort); hooked ops apply their effect
	// without scheduling and never block.
	unwinding bool
}

func (t *Thread) ID() int      { return t.id }
func (t *Thread) Name() string { return t.name }

// Point is one recorded scheduling decision with more than one alternative.
type Point struct {
	N          int  // number of alternatives
	CurEnabled bool // alternative 0 is "continue the running thread"
	NonEnvN    int  // alternatives [0,NonEnvN) are ordinary threads; the rest are environment actions
	Data       bool // a data choice (Choose), not a thread choice
	DataCost   int  // cost of a non-zero data choice
	Chosen     int
	Step       int
}

// Event is one executed scheduling step (for logs and replay artefacts).
type Event struct {
	Step   int
	Thread string
	Op     string
}

// Sched is the state of one execution.
type Sched struct {
	threads  []*Thread
	cur      *Thread
	prefix   []int
	points   []Point
	events   []Event
	steps    int
	maxSteps int
	aborted  bool
	finished chan struct{}

	Deadlock   string
	Livelock   bool
	Panics     []string
	Races      []string
	raceSeen   map[string]bool
	Diverged   string
	chans      map[uintptr]*chanState
	mem        map[uintptr]*memState
	now        int64 // virtual clock, nanoseconds
	logEvents  bool
	accessPts  bool
	objNames   map[interface{}]string
	Values     map[string]interface{} // harness scratch
	choiceSigs []string
	// state signature / pruning
	sigA, sigB uint64
	deps       map[interface{}]*depState
	frontier   func(key [3]uint64) bool // called at the first choice point after the prefix; true = prune
	Pruned     bool
	goDaemon   bool
	atEnd      []func(bool)
}

type abortSentinel struct{}

var active *Sched

// Active reports whether an exploration execution is in progress.
func Active() bool { return active != nil }

// Cur returns the running scheduler or nil.
func Cur() *Sched { return active }

func (s *Sched) curThread() *Thread { return s.cur }

// Now returns the virtual clock in nanoseconds.
func (s *Sched) Now() int64 { return s.now }

// AdvanceClock moves the virtual clock.
func (s *Sched) AdvanceClock(d int64) { s.now += d }

// SetAccessPoints makes watch-list memory accesses scheduling points.
func (s *Sched) SetAccessPoints(b bool) { s.accessPts = b }

func (s *Sched) newThread(name string, env, daemon bool) *Thread {
	t := &Thread{id: len(s.threads), name: name, env: env, daemon: daemon, wake: make(chan struct{}, 1), s: s}
	if s.cur != nil {
		// parent -> child happens-before edge
		s.cur.vc = s.cur.vc.tick(s.cur.id)
		t.vc = s.cur.vc.clone()
		s.cur.nKids++
		t.stable = mix(s.cur.stable, uint64(s.cur.nKids), 0x9e37)
		s.event(s.cur, OpStart, nil, "spawn", false)
		t.dc = s.cur.dc.clone()
	} else {
		t.stable = 0x1234567
	}
	t.vc = t.vc.tick(t.id)
	s.threads = append(s.threads, t)
	return t
}

// spawn registers and starts a goroutine as a thread parked at its start.
func (s *Sched) spawn(name string, env, daemon bool, f func()) *Thread {
	t := s.newThread(name, env, daemon)
	t.pending = &op{kind: OpStart, label: name}
	go func() {
		<-t.wake
		if s.aborted {
			t.done = true
			t.pending = nil
			s.exitAborted(t)
			return
		}
		t.started = true
		t.pending = nil
		s.event(t, OpStart, nil, "start", false)
		s.record(t, "start")
		defer s.threadEnd(t)
		f()
	}()
	return t
}

func (s *Sched) threadEnd(t *Thread) {
	if r := recover(); r != nil {
		if _, ok := r.(abortSentinel); !ok {
			s.Panics = append(s.Panics, fmt.Sprintf("thread %s: %v\n%s", t.name, r, trimStack(debug.Stack())))
			s.aborted = true
		}
	}
	t.done = true
	t.pending = nil
	t.vc = t.vc.tick(t.id)
	t.endVC = t.vc.clone()
	if s.aborted {
		s.exitAborted(t)
		return
	}
	s.event(t, OpJoin, nil, "end", false)
	t.endDC = t.dc.clone()
	s.record(t, "end")
	next := s.pick(t)
	if next == nil {
		return // finished or aborted; pick signalled
	}
	s.cur = next
	next.wake <- struct{}{}
}

// exitAborted unwinds: wake every parked thread so it can panic out; the last
// one to leave signals completion.
func (s *Sched) exitAborted(t *Thread) {
	for _, o := range s.threads {
		if !o.done && o != t {
			s.cur = o
			select {
			case o.wake <- struct{}{}:
			default:
			}
			return // that thread continues the chain when it ends
		}
	}
	select {
	case <-s.finished:
	default:
		close(s.finished)
	}
}

func trimStack(b []byte) string {
	l := strings.Split(string(b), "\n")
	var out []string
	for i := 0; i < len(l); i++ {
		if strings.Contains(l[i], "zzverif/vsched") || strings.Contains(l[i], "runtime/debug") || strings.Contains(l[i], "runtime/panic") {
			i++
			continue
		}
		out = append(out, l[i])
		if len(out) > 24 {
			break
		}
	}
	return strings.Join(out, "\n")
}

func (s *Sched) record(t *Thread, what string) {
	if s.logEvents {
		s.events = append(s.events, Event{Step: s.steps, Thread: t.name, Op: what})
	}
}

func (s *Sched) opString(o *op) string {
	n := o.label
	if n == "" {
		n = s.objName(o.obj)
	}
	return o.kind.String() + "(" + n + ")"
}

func (s *Sched) objName(o interface{}) string {
	if o == nil {
		return ""
	}
	if n, ok := s.objNames[o]; ok {
		return n
	}
	n := fmt.Sprintf("obj%d", len(s.objNames))
	s.objNames[o] = n
	return n
}

// Name gives an object a stable name for logs.
func Name(obj interface{}, name string) {
	if s := active; s != nil {
		s.objNames[obj] = name
	}
}

// yield publishes o as t's pending operation and returns when the scheduler
// has chosen t to perform it.
func (s *Sched) yield(o *op) {
	t := s.cur
	if t.unwinding {
		return
	}
	if s.aborted {
		t.unwinding = true
		panic(abortSentinel{})
	}
	t.pending = o
	next := s.pick(t)
	if next == nil {
		// deadlock/livelock/end detected while we are parked: unwind
		t.unwinding = true
		t.pending = nil
		panic(abortSentinel{})
	}
	if next != t {
		s.cur = next
		next.wake <- struct{}{}
		<-t.wake
		if s.aborted {
			t.unwinding = true
			t.pending = nil
			s.cur = t
			panic(abortSentinel{})
		}
	}
	t.pending = nil
	s.record(t, s.opString(o))
}

// Unwinding reports whether the running thread is being unwound after an
// abort (shims then apply effects without blocking).
func (s *Sched) unwinding() bool { return s.cur != nil && s.cur.unwinding }

// pick chooses the next thread to run (from is the thread making the
// decision: the running thread, parked at its pending op or finished).
// Returns nil when the execution is over (finished, deadlocked or aborted).
func (s *Sched) pick(from *Thread) *Thread {
	s.steps++
	if s.steps > s.maxSteps {
		s.Livelock = true
		s.abort(from)
		return nil
	}
	var norm, envs []*Thread
	curEnabled := false
	for _, t := range s.threads {
		if t.done || t.pending == nil {
			continue
		}
		if t.pending.enabled != nil && !t.pending.enabled() {
			continue
		}
		if t == from {
			curEnabled = true
			continue
		}
		if t.env {
			envs = append(envs, t)
		} else {
			norm = append(norm, t)
		}
	}
	var cands []*Thread
	if curEnabled {
		cands = append(cands, from)
	}
	nonEnv := len(norm)
	if curEnabled && !from.env {
		nonEnv++
	}
	cands = append(cands, norm...)
	if curEnabled && from.env {
		// a running env thread counts as env for cost purposes but stays first
		nonEnv = len(norm)
	}
	cands = append(cands, envs...)
	if len(cands) == 0 {
		// nothing can run
		var blocked []string
		for _, t := range s.threads {
			if !t.done && !t.daemon && !t.env {
				blocked = append(blocked, t.name+" at "+s.opString(t.pending))
			}
		}
		if len(blocked) > 0 {
			sort.Strings(blocked)
			s.Deadlock = strings.Join(blocked, "; ")
		}
		s.abort(from)
		return nil
	}
	// If only daemon/env threads remain unfinished and no ordinary thread is
	// alive, the execution is complete.
	alive := false
	for _, t := range s.threads {
		if !t.done && !t.daemon && !t.env {
			alive = true
			break
		}
	}
	if !alive {
		s.abort(from)
		return nil
	}
	idx := 0
	if len(cands) > 1 {
		k := len(s.points)
		if k >= len(s.prefix) && k > 0 && s.frontier != nil {
			if s.frontier(s.stateKey(from)) {
				s.Pruned = true
				s.abort(from)
				return nil
			}
		}
		if k < len(s.prefix) {
			idx = s.prefix[k]
			if idx < 0 || idx >= len(cands) {
				s.Diverged = fmt.Sprintf("choice %d out of range at point %d (have %d alternatives)", idx, k, len(cands))
				s.abort(from)
				return nil
			}
		}
		s.points = append(s.points, Point{N: len(cands), CurEnabled: curEnabled, NonEnvN: nonEnv, Chosen: idx, Step: s.steps})
	}
	return cands[idx]
}

// abort ends the execution: every parked thread is unwound with a panic.
func (s *Sched) abort(from *Thread) {
	s.aborted = true
	if from.done {
		s.exitAborted(from)
	}
	// if from is still running it will panic out of yield and chain from threadEnd
}

// Choose is a data choice point made by the running thread: returns a value in
// [0,n). A non-zero answer costs `cost` deviations.
func Choose(n int, cost int, label string) int {
	s := active
	if s == nil || n <= 1 {
		return 0
	}
	idx := 0
	k := len(s.points)
	if k >= len(s.prefix) && k > 0 && s.frontier != nil && !s.cur.unwinding {
		if s.frontier(s.stateKey(s.cur)) {
			s.Pruned = true
			s.aborted = true
			s.cur.unwinding = true
			panic(abortSentinel{})
		}
	}
	if k < len(s.prefix) {
		idx = s.prefix[k]
		if idx < 0 || idx >= n {
			s.Diverged = fmt.Sprintf("data choice %d out of range at point %d (n=%d)", idx, k, n)
			s.aborted = true
			panic(abortSentinel{})
		}
	}
	s.points = append(s.points, Point{N: n, Data: true, DataCost: cost, Chosen: idx, Step: s.steps})
	s.event(s.cur, OpPoint, nil, label, false)
	s.sigA += mix(s.cur.stable, uint64(s.cur.nOps), uint64(idx)+77)
	s.record(s.cur, fmt.Sprintf("choose(%s)=%d", label, idx))
	return idx
}

// Go starts f as a new scheduled thread (or a plain goroutine when no
// exploration is active).
func Go(f func()) {
	s := active
	if s == nil {
		go f()
		return
	}
	s.spawn(fmt.Sprintf("%s/g%d", s.cur.name, len(s.threads)), false, s.goDaemon, f)
}

// GoNamed is Go with a thread name and flags (harness use).
func GoNamed(name string, daemon bool, f func()) *Thread {
	s := active
	if s == nil {
		panic("vsched.GoNamed outside an exploration")
	}
	return s.spawn(name, false, daemon, f)
}

// GoEnv starts an environment pseudo-thread: it is scheduled after all
// ordinary threads by default, and scheduling it while an ordinary thread
// could run counts as a deviation.
func GoEnv(name string, f func()) *Thread {
	s := active
	if s == nil {
		panic("vsched.GoEnv outside an exploration")
	}
	return s.spawn(name, true, true, f)
}

// Join blocks until the given threads have ended (happens-before from their end).
func Join(ts ...*Thread) {
	s := active
	if s == nil {
		panic("vsched.Join outside an exploration")
	}
	for _, t := range ts {
		t := t
		s.yield(&op{kind: OpJoin, label: t.name, enabled: func() bool { return t.done }})
		s.cur.vc = s.cur.vc.join(t.endVC)
		s.cur.dc = s.cur.dc.join(t.endDC)
		s.event(s.cur, OpJoin, nil, "join", false)
	}
}

// Yield is a plain scheduling point (read or write of a named object).
func Yield(obj interface{}, label string, write bool) {
	s := active
	if s == nil {
		return
	}
	s.yield(&op{kind: OpPoint, obj: obj, label: label, write: write})
	s.event(s.cur, OpPoint, obj, label, write)
}

// Pt is Yield in expression position: a scheduling point on recv (an interface value: the object it holds),
// returning recv, so that  x.M(a)  can be rewritten to  vsched.Pt(x, "I.M", w).M(a).
func Pt[T any](recv T, label string, write bool) T {
	if s := active; s != nil && !s.unwinding() {
		Yield(interface{}(recv), label, write)
	}
	return recv
}

// Block parks the running thread until cond() holds (re-evaluated at every
// scheduling decision). cond must depend only on state changed by hooked ops.
func Block(obj interface{}, label string, cond func() bool) {
	s := active
	if s == nil {
		panic("vsched.Block outside an exploration")
	}
	s.yield(&op{kind: OpEnv, obj: obj, label: label, enabled: cond})
	s.event(s.cur, OpEnv, obj, label, false)
}

// MarkDaemon declares the running thread a daemon (may stay blocked at the end).
func MarkDaemon() {
	if s := active; s != nil {
		s.cur.daemon = true
	}
}

// CurName returns the running thread's name ("" outside an exploration).
func CurName() string {
	if s := active; s != nil {
		return s.cur.name
	}
	return ""
}

// Step returns the current step number (logical time).
func Step() int {
	if s := active; s != nil {
		return s.steps
	}
	return 0
}

// ---- hooks used by the vsync shims (kept here so shims need no access to internals) ----

// SyncOp performs a hooked synchronisation step on obj: parks until enabled()
// holds and the scheduler chooses this thread. Returns false when no
// exploration is active (the shim must then use the real primitive).
func SyncOp(kind OpKind, obj interface{}, label string, write bool, enabled func() bool) bool {
	s := active
	if s == nil {
		return false
	}
	if s.cur.unwinding {
		return true
	}
	s.yield(&op{kind: kind, obj: obj, label: label, write: write, enabled: enabled})
	s.event(s.cur, kind, obj, label, write)
	return true
}

// Unwinding reports whether the running thread is unwinding after an abort.
func Unwinding() bool {
	s := active
	return s != nil && s.cur.unwinding
}

// CurID returns the running thread id (-1 outside an exploration).
func CurID() int {
	if s := active; s != nil {
		return s.cur.id
	}
	return -1
}

// Spawn starts a named child thread of the running thread.
func Spawn(name string, f func()) *Thread {
	s := active
	return s.spawn(name, false, false, f)
}

// Done reports whether the thread has ended.
func (t *Thread) Done() bool { return t.done }

// JoinVC merges the ended thread's clock into the running thread (errgroup.Wait).
func JoinVC(t *Thread) {
	if s := active; s != nil {
		s.cur.vc = s.cur.vc.join(t.endVC)
		s.cur.dc = s.cur.dc.join(t.endDC)
	}
}

// Quiesce parks the running thread until every other ordinary (non-env,
// non-daemon) thread has ended.
func Quiesce() {
	s := active
	if s == nil {
		return
	}
	me := s.cur
	s.yield(&op{kind: OpJoin, label: "quiesce", enabled: func() bool {
		for _, t := range s.threads {
			if t != me && !t.done && !t.env && !t.daemon {
				return false
			}
		}
		return true
	}})
	for _, t := range s.threads {
		if t != me && t.done {
			me.vc = me.vc.join(t.endVC)
			me.dc = me.dc.join(t.endDC)
		}
	}
	s.event(me, OpJoin, nil, "quiesce", false)
}

// SetGoDaemon makes threads started by instrumented `go` statements daemons
// (they may stay blocked at the end of an execution) while it is set; harnesses
// set it around code that starts forever-running service goroutines.
func SetGoDaemon(b bool) {
	if s := active; s != nil {
		s.goDaemon = b
	}
}

// Settle parks the running thread until no other thread (ordinary, daemon or
// environment) can take a step: every other thread is blocked or has ended.
// Harnesses that drive time explicitly use it to let service goroutines (e.g. a
// ticker-driven cleaner) finish the work that the clock has made due.
func Settle() {
	s := active
	if s == nil {
		return
	}
	me := s.cur
	s.yield(&op{kind: OpJoin, label: "settle", enabled: func() bool {
		for _, t := range s.threads {
			if t == me || t.done || t.pending == nil {
				continue
			}
			if t.pending.enabled == nil || t.pending.enabled() {
				return false
			}
		}
		return true
	}})
	s.event(me, OpJoin, nil, "settle", false)
}

// AtEnd registers f to run after the execution has ended and every thread has
// been unwound (also when the execution was cut short by pruning or an abort),
// with no exploration active. Harnesses use it to release real resources
// (file mappings, RocksDB handles) that an unfinished execution left open.
// f is told whether the execution ran to its normal end (all ordinary threads
// finished) or was cut (pruned, deadlocked, panicked): after a cut, threads
// were abandoned mid-operation and may still "hold" native resources.
func AtEnd(f func(normalEnd bool)) {
	if s := active; s != nil {
		s.atEnd = append(s.atEnd, f)
	}
}
