package vsched

// State signatures for pruning.
//
// Every executed hooked operation is an event (thread, per-thread ordinal,
// kind, object, read/write). A dependency clock orders an event after every
// earlier conflicting event (same object, at least one of them a write, or
// program order, spawn, join). Two executed prefixes whose multisets of
// (event, dependency clock) are equal are linearisations of the same partial
// order (Mazurkiewicz-equivalent): every thread has performed the same
// operations and every conflicting pair is ordered the same way, so – given
// that threads communicate only through hooked objects – they have reached the
// same state and have the same futures. The signature is a commutative hash of
// that multiset. Objects are named by their first-use event, threads by their
// spawn path, so signatures are comparable across executions. This abstraction
// is finer than state equality (it never merges different states, barring a
// 128-bit hash collision); the explorer skips a subtree only when an equal
// signature, with the same running thread, was already expanded with at least
// as much deviation budget left.

type dclock map[uint64]uint32 // stable thread hash -> count

func (d dclock) clone() dclock {
	o := make(dclock, len(d)+1)
	for k, v := range d {
		o[k] = v
	}
	return o
}

func (d dclock) join(o dclock) dclock {
	if d == nil {
		d = dclock{}
	}
	for k, v := range o {
		if v > d[k] {
			d[k] = v
		}
	}
	return d
}

func (d dclock) hash() uint64 {
	var h uint64
	for k, v := range d {
		h += mix(k, uint64(v), 0xabcdef)
	}
	return h
}

type depState struct {
	name uint64 // hash of the first-use event
	w    dclock // clock of the last write
	r    dclock // join of the clocks of reads since the last write
}

func mix(a, b, c uint64) uint64 {
	x := a*0x9E3779B97F4A7C15 ^ (b+0x7F4A7C15)*0xC2B2AE3D27D4EB4F ^ (c+0x165667B1)*0x27D4EB2F165667C5
	x ^= x >> 29
	x *= 0xBF58476D1CE4E5B9
	x ^= x >> 32
	x *= 0x94D049BB133111EB
	x ^= x >> 29
	return x
}

func strHash(s string) uint64 {
	h := uint64(1469598103934665603)
	for i := 0; i < len(s); i++ {
		h ^= uint64(s[i])
		h *= 1099511628211
	}
	return h
}

// event records that thread t performed an operation on obj.
func (s *Sched) event(t *Thread, kind OpKind, obj interface{}, label string, write bool) {
	if t == nil {
		return
	}
	if t.dc == nil {
		t.dc = dclock{}
	}
	t.nOps++
	var objName uint64
	if obj != nil {
		if s.deps == nil {
			s.deps = map[interface{}]*depState{}
		}
		d := s.deps[obj]
		if d == nil {
			d = &depState{name: mix(t.stable, uint64(t.nOps), 0x0b1ec7)}
			s.deps[obj] = d
		}
		objName = d.name
		t.dc = t.dc.join(d.w)
		if write {
			t.dc = t.dc.join(d.r)
		}
	}
	t.dc[t.stable] = t.nOps
	if obj != nil {
		d := s.deps[obj]
		if write {
			d.w = t.dc.clone()
			d.r = nil
		} else {
			d.r = d.r.join(t.dc)
		}
	}
	w := uint64(0)
	if write {
		w = 1
	}
	e := mix(t.stable, uint64(t.nOps), uint64(kind)<<1|w) ^ mix(objName, strHash(label), t.dc.hash())
	s.sigA += e
	s.sigB += mix(e, 0x51, 0x77)
}

// stateKey is the pruning key at a choice point: the signature of everything
// executed so far plus the identity of the deciding (running) thread.
func (s *Sched) stateKey(from *Thread) [3]uint64 {
	cur := from.stable
	if from.done {
		cur ^= 0xdead
	}
	return [3]uint64{s.sigA, s.sigB, cur}
}

// Touch records a dependency event on obj without a scheduling point (for
// state read or written as part of the running step, e.g. the virtual clock).
func Touch(obj interface{}, label string, write bool) {
	if s := active; s != nil && s.cur != nil {
		s.event(s.cur, OpPoint, obj, label, write)
	}
}
