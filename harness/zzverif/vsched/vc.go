package vsched

import (
	"fmt"
	"os"
	"unsafe"
)

// VC is a vector clock indexed by thread id.
type VC []uint32

func (v VC) clone() VC { return append(VC(nil), v...) }

func (v VC) tick(id int) VC {
	for len(v) <= id {
		v = append(v, 0)
	}
	v[id]++
	return v
}

func (v VC) join(o VC) VC {
	for len(v) < len(o) {
		v = append(v, 0)
	}
	for i, x := range o {
		if x > v[i] {
			v[i] = x
		}
	}
	return v
}

func (v VC) get(id int) uint32 {
	if id < len(v) {
		return v[id]
	}
	return 0
}

// Release publishes the running thread's clock into *obj (a release edge)
// and returns the joined clock to store.
func (s *Sched) release(objVC *VC) {
	t := s.cur
	*objVC = objVC.join(t.vc)
	t.vc = t.vc.tick(t.id)
}

// acquire joins *obj's clock into the running thread.
func (s *Sched) acquire(objVC VC) {
	t := s.cur
	t.vc = t.vc.join(objVC)
}

// HBRelease / HBAcquire let harness-level objects (proxies, fakes) contribute
// happens-before edges: state is an opaque per-object clock holder.
type HBClock struct {
	vc VC
	ep uint64
}

func (h *HBClock) Release() {
	if s := active; s != nil {
		if h.ep != execEpoch {
			h.ep, h.vc = execEpoch, nil
		}
		s.release(&h.vc)
	}
}
func (h *HBClock) Acquire() {
	if s := active; s != nil {
		if h.ep != execEpoch {
			h.ep, h.vc = execEpoch, nil
		}
		s.acquire(h.vc)
	}
}

type epoch struct {
	tid   int
	clock uint32
	where string
}

type memState struct {
	name   string
	keep   unsafe.Pointer // keeps the object alive for the whole execution so that its address is never reused
	w      epoch
	hasW   bool
	reads  map[int]epoch
}

func (s *Sched) access(addr unsafe.Pointer, name string, write bool) {
	s.event(s.cur, OpAccess, uintptr(addr), name, write)
	s.hbCheck(addr, name, write)
}

// hbCheck is the vector-clock race check alone: no scheduling point and no event in the state
// signature (the access is part of the atomic step that follows the thread's last hooked operation).
func (s *Sched) hbCheck(addr unsafe.Pointer, name string, write bool) {
	t := s.cur
	if t == nil {
		return
	}
	key := uintptr(addr)
	if raceDebug && name == os.Getenv("VSCHED_RACE_DEBUG") {
		fmt.Fprintf(os.Stderr, "vsched access: %s write=%v by %s vc=%v\n", name, write, t.name, t.vc)
	}
	m := s.mem[key]
	if m == nil {
		m = &memState{name: name, keep: addr, reads: map[int]epoch{}}
		s.mem[key] = m
	}
	me := epoch{tid: t.id, clock: t.vc.get(t.id), where: t.name}
	ordered := func(e epoch) bool { return e.tid == t.id || e.clock <= t.vc.get(e.tid) }
	if m.hasW && !ordered(m.w) {
		kind := "read"
		if write {
			kind = "write"
		}
		s.race(fmt.Sprintf("%s: %s by %s races with write by %s", name, kind, t.name, m.w.where))
	}
	if write {
		for _, r := range m.reads {
			if !ordered(r) {
				s.race(fmt.Sprintf("%s: write by %s races with read by %s", name, t.name, r.where))
			}
		}
		m.w, m.hasW = me, true
		m.reads = map[int]epoch{}
	} else {
		m.reads[t.id] = me
	}
}

var raceDebug = os.Getenv("VSCHED_RACE_DEBUG") != ""

func (s *Sched) race(msg string) {
	if raceDebug {
		fmt.Fprintln(os.Stderr, "vsched race:", msg)
	}
	if !s.raceSeen[msg] {
		s.raceSeen[msg] = true
		s.Races = append(s.Races, msg)
	}
}

// R records a read of the watch-listed location *p and returns p.
func R[T any](p *T, name string) *T {
	if s := active; s != nil {
		if s.accessPts && !s.unwinding() {
			s.yield(&op{kind: OpAccess, obj: unsafe.Pointer(p), label: name})
		}
		s.access(unsafe.Pointer(p), name, false)
	}
	return p
}

// W records a write of the watch-listed location *p and returns p.
func W[T any](p *T, name string) *T {
	if s := active; s != nil {
		if s.accessPts && !s.unwinding() {
			s.yield(&op{kind: OpAccess, obj: unsafe.Pointer(p), label: name, write: true})
		}
		s.access(unsafe.Pointer(p), name, true)
	}
	return p
}

// RN / WN record a read / write of *p for the happens-before race check only (no scheduling point):
// used for the blanket instrumentation of struct fields, package variables and captured locals.
func RN[T any](p *T, name string) *T {
	if s := active; s != nil && !s.unwinding() {
		s.hbCheck(unsafe.Pointer(p), name, false)
	}
	return p
}

func WN[T any](p *T, name string) *T {
	if s := active; s != nil && !s.unwinding() {
		s.hbCheck(unsafe.Pointer(p), name, true)
	}
	return p
}

// Element-level events of the blanket instrumentation (vrewrite watchelems): the backing arrays of slices are
// where a scratch buffer hoisted out of a function is shared, and the field or variable holding the slice header
// is only ever READ by the racing threads.

// AppendW records the write that append(a, ...) performs into a's backing array when it has room (the first
// free slot stands for all of them) and returns a.
func AppendW[T any](a []T, name string) []T {
	if s := active; s != nil && !s.unwinding() && cap(a) > len(a) {
		s.hbCheck(unsafe.Pointer(&a[:len(a)+1][len(a)]), name, true)
	}
	return a
}

// SliceW / SliceR record a write / read of the first and last element of a (copy destinations and sources,
// variadic append sources) and return a.
func SliceW[T any](a []T, name string) []T {
	if s := active; s != nil && !s.unwinding() && len(a) > 0 {
		s.hbCheck(unsafe.Pointer(&a[0]), name, true)
		if len(a) > 1 {
			s.hbCheck(unsafe.Pointer(&a[len(a)-1]), name, true)
		}
	}
	return a
}

func SliceR[T any](a []T, name string) []T {
	if s := active; s != nil && !s.unwinding() && len(a) > 0 {
		s.hbCheck(unsafe.Pointer(&a[0]), name, false)
		if len(a) > 1 {
			s.hbCheck(unsafe.Pointer(&a[len(a)-1]), name, false)
		}
	}
	return a
}

// MapR / MapW record a read / write of the map m (keyed by its header) and return m.
func MapR[M ~map[K]V, K comparable, V any](m M, name string) M {
	if s := active; s != nil && !s.unwinding() && m != nil {
		s.hbCheck(*(*unsafe.Pointer)(unsafe.Pointer(&m)), name, false)
	}
	return m
}

func MapW[M ~map[K]V, K comparable, V any](m M, name string) M {
	if s := active; s != nil && !s.unwinding() && m != nil {
		s.hbCheck(*(*unsafe.Pointer)(unsafe.Pointer(&m)), name, true)
	}
	return m
}
