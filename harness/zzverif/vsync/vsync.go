// Package vsync mirrors the parts of package sync used by the repository.
// Under an active vsched exploration every operation is a scheduling point
// with Go's blocking semantics and happens-before edges; otherwise it
// delegates to the real primitive. Zero values are usable, as in sync.
package vsync

import (
	"sync"

	"github.com/facebookincubator/dns/dnsrocks/zzverif/vsched"
)

// Locker is sync.Locker.
type Locker = sync.Locker

// Mutex mirrors sync.Mutex.
type Mutex struct {
	real  sync.Mutex
	held  bool
	clock vsched.HBClock
	ep    uint64
}

// fresh resets the scheduler-side state when the object is first used in a new execution.
func (m *Mutex) fresh() {
	if e := vsched.Epoch(); m.ep != e {
		m.ep, m.held = e, false
	}
}

func (m *Mutex) Lock() {
	m.fresh()
	if !vsched.SyncOp(vsched.OpLock, m, "", true, func() bool { return !m.held }) {
		m.real.Lock()
		return
	}
	m.held = true
	m.clock.Acquire()
}

func (m *Mutex) Unlock() {
	m.fresh()
	if !vsched.SyncOp(vsched.OpUnlock, m, "", true, nil) {
		m.real.Unlock()
		return
	}
	if !m.held && !vsched.Unwinding() {
		panic("sync: unlock of unlocked mutex")
	}
	m.clock.Release()
	m.held = false
}

func (m *Mutex) TryLock() bool {
	m.fresh()
	if !vsched.SyncOp(vsched.OpLock, m, "", true, nil) {
		return m.real.TryLock()
	}
	if m.held {
		return false
	}
	m.held = true
	m.clock.Acquire()
	return true
}

// RWMutex mirrors sync.RWMutex including writer preference: a pending writer
// blocks new readers (Lock is two scheduling steps: announce, then acquire).
type RWMutex struct {
	real    sync.RWMutex
	readers int
	writer  bool
	pending int // writers that announced and wait for readers to drain
	wclock  vsched.HBClock // released by Unlock; acquired by RLock and Lock
	rclock  vsched.HBClock // released by RUnlock; acquired by Lock
	ep      uint64
}

func (m *RWMutex) fresh() {
	if e := vsched.Epoch(); m.ep != e {
		m.ep, m.readers, m.writer, m.pending = e, 0, false, 0
	}
}

func (m *RWMutex) RLock() {
	m.fresh()
	if !vsched.SyncOp(vsched.OpRLock, m, "", false, func() bool { return !m.writer && m.pending == 0 }) {
		m.real.RLock()
		return
	}
	m.readers++
	m.wclock.Acquire()
}

func (m *RWMutex) RUnlock() {
	m.fresh()
	if !vsched.SyncOp(vsched.OpRUnlock, m, "", true, nil) {
		m.real.RUnlock()
		return
	}
	if m.readers <= 0 && !vsched.Unwinding() {
		panic("sync: RUnlock of unlocked RWMutex")
	}
	m.rclock.Release()
	m.readers--
}

func (m *RWMutex) Lock() {
	m.fresh()
	if !vsched.SyncOp(vsched.OpWLockAnnounce, m, "", true, func() bool { return !m.writer && m.pending == 0 }) {
		m.real.Lock()
		return
	}
	m.pending++
	vsched.SyncOp(vsched.OpWLockAcquire, m, "", true, func() bool { return m.readers == 0 && !m.writer })
	m.pending--
	m.writer = true
	m.wclock.Acquire()
	m.rclock.Acquire()
}

func (m *RWMutex) Unlock() {
	m.fresh()
	if !vsched.SyncOp(vsched.OpUnlock, m, "", true, nil) {
		m.real.Unlock()
		return
	}
	if !m.writer && !vsched.Unwinding() {
		panic("sync: Unlock of unlocked RWMutex")
	}
	m.wclock.Release()
	m.writer = false
}

// RLocker mirrors (*sync.RWMutex).RLocker.
func (m *RWMutex) RLocker() Locker { return (*rlocker)(m) }

type rlocker RWMutex

func (r *rlocker) Lock()   { (*RWMutex)(r).RLock() }
func (r *rlocker) Unlock() { (*RWMutex)(r).RUnlock() }

// WaitGroup mirrors sync.WaitGroup.
type WaitGroup struct {
	real  sync.WaitGroup
	n     int
	clock vsched.HBClock
	ep    uint64
}

func (w *WaitGroup) fresh() {
	if e := vsched.Epoch(); w.ep != e {
		w.ep, w.n = e, 0
	}
}

func (w *WaitGroup) Add(d int) {
	w.fresh()
	if !vsched.SyncOp(vsched.OpWGAdd, w, "", true, nil) {
		w.real.Add(d)
		return
	}
	if d < 0 {
		w.clock.Release()
	}
	w.n += d
	if w.n < 0 && !vsched.Unwinding() {
		panic("sync: negative WaitGroup counter")
	}
}

func (w *WaitGroup) Done() { w.Add(-1) }

func (w *WaitGroup) Wait() {
	w.fresh()
	if !vsched.SyncOp(vsched.OpWait, w, "", false, func() bool { return w.n <= 0 }) {
		w.real.Wait()
		return
	}
	w.clock.Acquire()
}

// Once mirrors sync.Once.
type Once struct {
	real  sync.Once
	done  bool
	busy  bool
	clock vsched.HBClock
	ep    uint64
}

func (o *Once) Do(f func()) {
	if e := vsched.Epoch(); o.ep != e {
		o.ep, o.busy = e, false // done persists: the effect of f is global
	}
	if !vsched.SyncOp(vsched.OpOnce, o, "", true, func() bool { return !o.busy }) {
		o.real.Do(f)
		return
	}
	if o.done {
		o.clock.Acquire()
		return
	}
	o.busy = true
	defer func() {
		o.done, o.busy = true, false
		o.clock.Release()
	}()
	f()
}

// Pool mirrors sync.Pool with a deterministic LIFO free list under exploration.
type Pool struct {
	New   func() interface{}
	real  sync.Pool
	free  []interface{}
	clock vsched.HBClock
}

func (p *Pool) Get() interface{} {
	if !vsched.SyncOp(vsched.OpPoint, p, "pool.Get", true, nil) {
		if p.real.New == nil && p.New != nil {
			p.real.New = p.New
		}
		return p.real.Get()
	}
	if n := len(p.free); n > 0 {
		x := p.free[n-1]
		p.free = p.free[:n-1]
		p.clock.Acquire()
		return x
	}
	if p.New != nil {
		return p.New()
	}
	return nil
}

func (p *Pool) Put(x interface{}) {
	if !vsched.SyncOp(vsched.OpPoint, p, "pool.Put", true, nil) {
		p.real.Put(x)
		return
	}
	p.clock.Release()
	p.free = append(p.free, x)
}
