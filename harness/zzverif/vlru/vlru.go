// Package vlru wraps github.com/hashicorp/golang-lru: each call is one atomic
// step preceded by a scheduling point on the cache object (the real cache is
// internally mutex-protected, hence the happens-before edge between calls).
package vlru

import (
	lru "github.com/hashicorp/golang-lru"

	"github.com/facebookincubator/dns/dnsrocks/zzverif/vsched"
)

// Cache mirrors lru.Cache.
type Cache struct {
	c     *lru.Cache
	clock vsched.HBClock
}

// New mirrors lru.New.
func New(size int) (*Cache, error) {
	c, err := lru.New(size)
	if err != nil {
		return nil, err
	}
	return &Cache{c: c}, nil
}

func (c *Cache) step(label string, write bool) {
	if vsched.SyncOp(vsched.OpPoint, c, label, write, nil) {
		c.clock.Acquire()
		c.clock.Release()
	}
}

func (c *Cache) Get(key interface{}) (interface{}, bool) { c.step("lru.Get", true); return c.c.Get(key) }
func (c *Cache) Add(key, value interface{}) bool         { c.step("lru.Add", true); return c.c.Add(key, value) }
func (c *Cache) Remove(key interface{}) bool             { c.step("lru.Remove", true); return c.c.Remove(key) }
func (c *Cache) Purge()                                  { c.step("lru.Purge", true); c.c.Purge() }
func (c *Cache) Contains(key interface{}) bool           { c.step("lru.Contains", false); return c.c.Contains(key) }
func (c *Cache) Peek(key interface{}) (interface{}, bool) { c.step("lru.Peek", false); return c.c.Peek(key) }
func (c *Cache) Len() int                                { return c.c.Len() }
func (c *Cache) Keys() []interface{}                     { return c.c.Keys() }
