// Package vctx replaces context.WithTimeout: under exploration the timeout is
// an environment action that the explorer may fire at any scheduling point
// until the context is cancelled.
package vctx

import (
	"context"
	"time"

	"github.com/facebookincubator/dns/dnsrocks/zzverif/vsched"
)

type tctx struct {
	context.Context
	done      chan struct{}
	fired     bool
	cancelled bool
}

func (c *tctx) Done() <-chan struct{} { return c.done }
func (c *tctx) Err() error {
	if c.fired {
		return context.DeadlineExceeded
	}
	if c.cancelled {
		return context.Canceled
	}
	return nil
}
func (c *tctx) Deadline() (time.Time, bool) { return time.Time{}, false }

// WithTimeout mirrors context.WithTimeout.
func WithTimeout(parent context.Context, d time.Duration) (context.Context, context.CancelFunc) {
	if !vsched.Active() {
		return context.WithTimeout(parent, d)
	}
	c := &tctx{Context: parent, done: make(chan struct{})}
	vsched.NameChan(c.done, "ctx.Done")
	vsched.GoEnv("timer", func() {
		vsched.SyncOp(vsched.OpEnv, c, "timeout-fires", true, func() bool { return !c.cancelled && !c.fired })
		if c.cancelled || vsched.Unwinding() {
			return
		}
		c.fired = true
		vsched.CloseNoYield(c.done)
	})
	cancel := func() {
		if c.cancelled || c.fired {
			c.cancelled = true
			return
		}
		vsched.SyncOp(vsched.OpPoint, c, "ctx.cancel", true, nil)
		c.cancelled = true
		vsched.CloseNoYield(c.done)
	}
	return c, cancel
}
