// C07, schedules part (auxiliary binary of ./check C07): the compilers' goroutines under the controlled
// scheduler.
//
// For a handful of tiny data files chosen so that values of ONE key are spread over several lines (hence over
// several parser workers and several write batches), and a grid of compiler settings, EVERY interleaving within
// the preemption bound of the real, instrumented code is executed:
//
//	dnsdata.ParseStream / parse   scanner goroutine, worker pool (errgroup), result channel, accumulator
//	rdb.compileBatches            store(), limiter channel, batch goroutines, RDB.ExecuteBatch (read-modify-write)
//	cdb.CreateCDBFromReader       the single consumer feeding the CDB writer
//
// over a REAL RocksDB (one handle per shard process, shared by its executions through a redirected NewRDB,
// cleared before and dumped after each) / a CDB file per execution. The bulk builder is not part of this: with
// files below its 30000-record bucket size it runs one bucket writer, joined before ingestion (its input and
// bucket-split behaviour is the inputs part's business). Every call into the RocksDB handle is a scheduling
// point (vrewrite yieldcalls), so a read-modify-write that is not atomic can be interleaved. After each complete
// execution the produced store is dumped and must equal, as a map key -> multiset of values, what the
// line-by-line codec emits for the file (the same reference as the inputs part); a rejected line must fail the
// compilation on every schedule. Deadlocks of the compiling goroutine, panics and unsynchronised conflicting
// accesses (blanket happens-before check: struct fields, package variables, captured locals) are violations.
package main

import (
	"bufio"
	"bytes"
	"fmt"
	"os"
	"path/filepath"
	"runtime"
	"runtime/pprof"
	"sort"
	"strings"
	"time"

	gocdb "github.com/repustate/go-cdb"

	"github.com/facebookincubator/dns/dnsrocks/dnsdata"
	"github.com/facebookincubator/dns/dnsrocks/dnsdata/cdb"
	"github.com/facebookincubator/dns/dnsrocks/dnsdata/rdb"
	"github.com/facebookincubator/dns/dnsrocks/zzverif/vsched"

	"verifharness/dnsfix"
	"verifharness/vlib"
)

type setting struct {
	B     dnsfix.Backend
	W     int
	Bld   bool
	BSize int
	BPar  int
}

func (s setting) String() string {
	switch {
	case s.B == dnsfix.CDB:
		return fmt.Sprintf("cdb/w%d", s.W)
	case s.Bld:
		return fmt.Sprintf("%s/builder/w%d", s.B, s.W)
	}
	return fmt.Sprintf("%s/batches/w%d/size%d/par%d", s.B, s.W, s.BSize, s.BPar)
}

type scen struct {
	file  string // name of the data file
	text  string
	set   setting
	bound [2]int // quick, thorough
}

// data files: simplest first. Every file has several lines under one key so that lost updates, dropped or
// duplicated results are observable in the dump.
var files = []struct{ name, text string }{
	{"samekey3", "+a.example.com,192.0.2.1,300\n+a.example.com,192.0.2.2,300\n+a.example.com,192.0.2.3,300\n"},
	{"twokeys", "+a.example.com,192.0.2.1,300\n+b.example.com,192.0.2.2,300\n+a.example.com,192.0.2.3,300\n+b.example.com,192.0.2.4,300\n"},
	{"subnets", "%aa,10.0.0.0/8,m1\n+a.example.com,192.0.2.1,300,,aa\n%bb,10.1.0.0/16,m1\n+a.example.com,192.0.2.2,300,,bb\n"},
	{"rejected-last", "+a.example.com,192.0.2.1,300\n+a.example.com,192.0.2.2,300\n?a.example.com,192.0.2.3\n"},
	{"rejected-first", "?a.example.com,192.0.2.3\n+a.example.com,192.0.2.1,300\n+a.example.com,192.0.2.2,300\n"},
}

func scenarios(thorough bool) []scen {
	var out []scen
	add := func(f int, s setting, q, t int) {
		out = append(out, scen{files[f].name, files[f].text, s, [2]int{q, t}})
	}
	// batches: two and three concurrent batch goroutines writing the same key
	add(0, setting{B: dnsfix.RDBv1, W: 1, BSize: 1, BPar: 2}, 1, 2)
	add(0, setting{B: dnsfix.RDBv2, W: 1, BSize: 1, BPar: 0}, 1, 2)
	add(1, setting{B: dnsfix.RDBv1, W: 2, BSize: 2, BPar: 2}, 1, 2)
	add(2, setting{B: dnsfix.RDBv2, W: 2, BSize: 4, BPar: 1}, 1, 2) // 10 records: two full batches and the final flush
	add(3, setting{B: dnsfix.RDBv1, W: 2, BSize: 1, BPar: 2}, 1, 2)
	add(4, setting{B: dnsfix.RDBv1, W: 1, BSize: 1, BPar: 1}, 2, 3)
	// cdb
	add(1, setting{B: dnsfix.CDB, W: 2}, 2, 3)
	add(2, setting{B: dnsfix.CDB, W: 3}, 1, 2)
	add(3, setting{B: dnsfix.CDB, W: 2}, 2, 3)
	if thorough {
		add(1, setting{B: dnsfix.RDBv2, W: 2, BSize: 1, BPar: 2}, 1, 1) // (three workers x three parallel batches: even one preemption does not finish within ten minutes)
		add(4, setting{B: dnsfix.CDB, W: 1}, 3, 3)
	}
	return out
}

// ---- reference (the repository's own line codec, run sequentially; same as harness/c07/reference.go) ----

func refCodec(b dnsfix.Backend) *dnsdata.Codec {
	c := new(dnsdata.Codec)
	c.Serial = dnsfix.Serial
	if b != dnsfix.CDB {
		c.Acc.Ranger.Enable()
		c.Acc.NoPrefixSets = true
		c.NoRnetOutput = true
		c.Features.UseV2Keys = b == dnsfix.RDBv2
	}
	return c
}

// reference returns the expected dump, or nil when a line is rejected.
func reference(text []byte, b dnsfix.Backend) dnsfix.Dump {
	c := refCodec(b)
	d := dnsfix.Dump{}
	add := func(recs []dnsdata.MapRecord) {
		for _, m := range recs {
			d[string(m.Key)] = append(d[string(m.Key)], string(m.Value))
		}
	}
	sc := bufio.NewScanner(bytes.NewReader(text))
	for sc.Scan() {
		line := bytes.TrimLeft(sc.Bytes(), " ")
		if len(line) < 2 || line[0] == '#' {
			continue
		}
		recs, err := c.ConvertLn(append([]byte(nil), line...))
		if err != nil {
			return nil
		}
		add(recs)
	}
	recs, err := c.Acc.MarshalMap()
	if err != nil {
		return nil
	}
	add(recs)
	recs, err = c.Features.MarshalMap()
	if err != nil {
		return nil
	}
	add(recs)
	for k := range d {
		sort.Strings(d[k])
	}
	return d
}

var seq int
var lastPath string

func storePath(dir string, sc scen) string {
	if sc.set.B == dnsfix.CDB {
		return filepath.Join(dir, fmt.Sprintf("s%d.cdb", seq))
	}
	return filepath.Join(dir, fmt.Sprintf("s%d.rdb", seq))
}

func main() {
	runtime.GOMAXPROCS(1)
	if f := os.Getenv("C07S_PROF"); f != "" { // development aid
		fh, _ := os.Create(f)
		pprof.StartCPUProfile(fh)
		go func() {
			time.Sleep(40 * time.Second)
			pprof.StopCPUProfile()
			fh.Close()
			os.Exit(3)
		}()
	}
	r := vlib.Start("C07")
	dir, clean := vlib.Scratch("c07sched")
	defer clean()
	dnsfix.Quiet(dir)
	idx, n, isShard := r.Shard()
	if !isShard {
		vlib.Infra("c07_sched is an auxiliary binary: run ./check C07")
	}
	scs := scenarios(r.Thorough())
	sharedDir := filepath.Join(dir, "shared.rdb")
	if err := os.MkdirAll(sharedDir, 0o755); err != nil {
		vlib.Infra("%v", err)
	}
	if err := rdb.OpenSharedPrimaryForVerif(sharedDir); err != nil {
		vlib.Infra("shared RocksDB: %v", err)
	}
	for u := idx; u < len(scs); u += n {
		sc := scs[u]
		bound := sc.bound[0]
		if r.Thorough() {
			bound = sc.bound[1]
		}
		want := reference([]byte(sc.text), sc.set.B)
		if (want == nil) != strings.HasPrefix(sc.file, "rejected") {
			vlib.Infra("harness: data file %q: the codec's verdict (rejected=%v) is not the one the file was written for", sc.file, want == nil)
		}
		outcomes := map[string]bool{}
		st := vsched.Explore(vsched.Config{Bound: bound, MaxSteps: 100000}, func() (func(), func(*vsched.Result)) {
			seq++
			// the store path of the previous execution: normally removed by its check, but an execution that was
			// pruned or cut never reaches its check (millions of them in the thorough tier: the scratch file
			// system ran out of inodes)
			if lastPath != "" {
				os.RemoveAll(lastPath)
			}
			lastPath = storePath(dir, sc)
			if sc.set.B != dnsfix.CDB {
				if err := rdb.ClearSharedForVerif(); err != nil {
					vlib.Infra("clearing the shared RocksDB: %v", err)
				}
			}
			var path string
			var cerr error
			done := false
			body := func() {
				// goroutines the compilers leave behind on an error path (a scanner blocked on a full line
				// channel after its workers returned) are leaks, not deadlocks of the compilation
				vsched.SetGoDaemon(true)
				path, cerr = compile(dir, sc)
				done = true
			}
			check := func(res *vsched.Result) {
				defer func() {
					if path != "" {
						os.RemoveAll(path)
					}
				}()
				var bad []string
				bad = append(bad, res.Problems()...)
				if !res.Bad() && done {
					switch {
					case want == nil && cerr == nil:
						bad = append(bad, "a rejected line did not fail the compilation")
					case want != nil && cerr != nil:
						bad = append(bad, "compilation of a well-formed file failed: "+cerr.Error())
					case want != nil:
						got, derr := dumpStore(sc.set.B, path)
						if derr != nil {
							bad = append(bad, "store unreadable: "+derr.Error())
						} else if d := want.Diff(got); d != "" {
							bad = append(bad, "store differs from the line-by-line reference: "+firstLine(d))
						}
					}
				}
				outcomes[strings.Join(bad, "+")] = true
				for _, b := range bad {
					fp := "sched/" + sc.file + "/" + sc.set.String() + "/" + kindOf(b)
					if !r.Has(fp) {
						r.Violate(fp, fmt.Sprintf("file %q setting %s: %s (choices %v)", sc.file, sc.set, b, res.Choices),
							map[string]interface{}{"part": "schedules", "file": sc.text, "setting": sc.set.String(), "choices": res.Choices, "problem": b})
					}
				}
			}
			return body, check
		})
		r.Add("schedule_executions", st.Execs)
		r.Add("schedule_steps", st.Transitions)
		r.Add("schedule_distinct_states", st.States)
		r.Add("schedule_pruned_subtrees", st.Pruned)
		r.Add("schedule_distinct_outcomes", int64(len(outcomes)))
		r.Add("schedule_scenarios", 1)
		if st.Capped || st.BoundCompleted < bound {
			r.Exhaustive = false
		}
		r.Note("schedules: file %q setting %s: preemption bound %d, executions %d, distinct states %d, steps %d", sc.file, sc.set, bound, st.Execs, st.States, st.Transitions)
	}
	r.Finish()
}

// dumpStore reads the store an execution produced: the CDB file, or the shared RocksDB handle.
func dumpStore(b dnsfix.Backend, path string) (dnsfix.Dump, error) {
	if b == dnsfix.CDB {
		return dnsfix.DumpCDB(path)
	}
	raw, err := rdb.DumpSharedForVerif()
	if err != nil {
		return nil, err
	}
	d := dnsfix.Dump{}
	for k, data := range raw {
		d[k] = []string{}
		for len(data) > 0 {
			if len(data) < 4 {
				return nil, fmt.Errorf("key %q: truncated chunk header", k)
			}
			n := int(uint32(data[0]) | uint32(data[1])<<8 | uint32(data[2])<<16 | uint32(data[3])<<24)
			if len(data) < 4+n {
				return nil, fmt.Errorf("key %q: truncated chunk", k)
			}
			d[k] = append(d[k], string(data[4:4+n]))
			data = data[4+n:]
		}
		sort.Strings(d[k])
	}
	return d, nil
}

func kindOf(problem string) string {
	p := firstLine(problem)
	if strings.HasPrefix(p, "race: ") {
		// one fingerprint per racing location and access pair, whatever the thread names
		f := strings.SplitN(strings.TrimPrefix(p, "race: "), ":", 2)[0]
		return "race/" + f
	}
	if i := strings.Index(p, ": "); i > 0 && !strings.HasPrefix(p, "deadlock") {
		p = p[:i]
	}
	if len(p) > 120 {
		p = p[:120]
	}
	return p
}

func firstLine(s string) string {
	if i := strings.IndexByte(s, '\n'); i >= 0 {
		return s[:i]
	}
	return s
}

// compile runs the repository's compiler for the scenario into a fresh path.
func compile(dir string, sc scen) (string, error) {
	switch sc.set.B {
	case dnsfix.CDB:
		p := storePath(dir, sc)
		w, err := gocdb.NewWriter(p)
		if err != nil {
			vlib.Infra("cdb writer: %v", err)
		}
		_, err = cdb.CreateCDBFromReader(strings.NewReader(sc.text), w, dnsfix.Serial, sc.set.W)
		cerr := w.Close()
		if err == nil {
			err = cerr
		}
		return p, err
	default:
		p := storePath(dir, sc)
		if err := os.MkdirAll(p, 0o755); err != nil {
			vlib.Infra("%v", err)
		}
		_, err := rdb.Compile(strings.NewReader(sc.text), dnsfix.Serial, p, rdb.CompilationOptions{
			NumCPU: sc.set.W, UseV2KeySyntax: sc.set.B == dnsfix.RDBv2, UseBuilder: sc.set.Bld,
			BatchNumParallel: sc.set.BPar, BatchSize: sc.set.BSize,
		})
		return p, err
	}
}
