//go:build verif

package dnsserver

import "github.com/facebookincubator/dns/dnsrocks/db"

// SetDBForVerif installs a database generation (verification only).
func (h *FBDNSDB) SetDBForVerif(d *db.DB) { h.dnsdb = d }

// DBForVerif returns the served generation.
func (h *FBDNSDB) DBForVerif() *db.DB { return h.dnsdb }

// PathForVerif returns the path partial reloads act on.
func (h *FBDNSDB) PathForVerif() string { return h.dbConfig.Path }

// LRUKeysForVerif lists the response cache keys.
func (h *FBDNSDB) LRUKeysForVerif() []interface{} {
	if h.lru == nil {
		return nil
	}
	return h.lru.Keys()
}
