//go:build verif

package db

import "github.com/facebookincubator/dns/dnsrocks/dnsdata/rdb"

// NewRDBDriverForVerif wraps an rdb.RDB in the repository's RocksDB driver, as openRDB does.
func NewRDBDriverForVerif(r *rdb.RDB, path string) DBI {
	return &rdbdriver{db: r, path: path, isDataSorted: r.IsV2KeySyntaxUsed()}
}
