//go:build verif

package dnsserver

// SetControlPathForVerif sets the directory in which Reload removes the processed signal file
// ("" = none). Pointing it at a regular file makes that removal fail (ENOTDIR) - the one failure
// of Reload that happens AFTER the database reload itself has succeeded.
func (h *FBDNSDB) SetControlPathForVerif(p string) { h.dbConfig.ControlPath = p }
