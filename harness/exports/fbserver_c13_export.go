//go:build verif

package fbserver

import (
	"github.com/coredns/coredns/plugin"
	"github.com/miekg/dns"
)

// NewServeMuxForVerif returns the server's own (unexported) dns.Handler that
// sits between miekg's dns.Server and the plugin chain (verification only; added for C13).
func NewServeMuxForVerif(h plugin.Handler) dns.Handler { return &serveMux{defaultHandler: h} }
