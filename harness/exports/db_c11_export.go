//go:build verif

package db

import "math/rand"

// NewLockedRandForVerif wraps a caller-supplied underlying source in the
// package's own mutex-protected source (rand.go), exactly as NewRand does for
// the runtime source (verification only; used by C11 part 3).
func NewLockedRandForVerif(src rand.Source64) *rand.Rand {
	return rand.New(&lockedSource{src: src})
}
