//go:build verif

package dnsserver

// PurgeCacheForC11 empties the response cache (verification only; C11's
// cache-enabled request sequences each start from an empty cache). It does to
// the cache what Reload does, without touching the database.
func (h *FBDNSDB) PurgeCacheForC11() {
	if h.lru != nil {
		h.lru.Purge()
	}
}
