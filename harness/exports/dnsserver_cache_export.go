//go:build verif

package dnsserver

// PurgeCacheForVerif empties the response cache (verification only; added for
// C13's and C12's two-query histories, which start from an empty cache). It does
// what Reload does to the cache, without touching the database.
func (h *FBDNSDB) PurgeCacheForVerif() {
	if h.lru != nil {
		h.lru.Purge()
	}
}

// CacheLenForVerif is the number of entries in the response cache.
func (h *FBDNSDB) CacheLenForVerif() int {
	if h.lru == nil {
		return 0
	}
	return h.lru.Len()
}
