//go:build verif

package db

import "math/rand"

// NewDBForVerif wraps a caller-supplied backend into a *DB (verification only).
func NewDBForVerif(dbi DBI) *DB { return &DB{dbi: dbi} }

// DBIForVerif exposes the wrapped backend.
func (f *DB) DBIForVerif() DBI { return f.dbi }

// RefCountForVerif / DestroyableForVerif expose the generation's bookkeeping.
func (f *DB) RefCountForVerif() uint64   { return f.refCount }
func (f *DB) DestroyableForVerif() bool { return f.destroyable }

// ReaderDBForVerif returns the *DB a reader pins.
func ReaderDBForVerif(r Reader) *DB {
	switch x := r.(type) {
	case *DataReader:
		return x.db
	case *sortedDataReader:
		return x.db
	}
	return nil
}

// SetRandForVerif replaces the package's random source and returns the old one.
func SetRandForVerif(r *rand.Rand) *rand.Rand {
	old := localRand
	localRand = r
	return old
}

// OpenDBIForVerif opens a backend with the repository's own drivers.
func OpenDBIForVerif(name, driver string) (DBI, error) {
	switch driver {
	case "cdb":
		return openCDB(name)
	case "rocksdb":
		return openRDB(name)
	}
	return nil, ErrValidationKeyNotFound
}
