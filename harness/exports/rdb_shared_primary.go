//go:build verif

package rdb

import (
	rocksdb "github.com/facebookincubator/dns/dnsrocks/cgo-rocksdb"
	sync "github.com/facebookincubator/dns/dnsrocks/zzverif/vsync" // the package is built with "sync" rewritten to this shim
)

// A real, writable RocksDB handle shared by the many short-lived RDB values that compileBatches creates while
// its schedules are explored: opening and closing a RocksDB directory costs tens of milliseconds, far more
// than everything else an execution does. The harness opens the handle once per process, registers it here,
// clears it before every execution and dumps it afterwards. Closing / flushing the wrapper leaves the shared
// handle alone; every other call reaches RocksDB.
type sharedPrimary struct{ *rocksdb.RocksDB }

func (sharedPrimary) CloseDatabase()   {}
func (sharedPrimary) Flush() error     { return nil }
func (sharedPrimary) CompactRangeAll() {}

var sharedPrimaryForVerif *rocksdb.RocksDB

// OpenSharedPrimaryForVerif opens path exactly as NewRDB does and registers the handle.
func OpenSharedPrimaryForVerif(path string) error {
	r, err := NewRDB(path)
	if err != nil {
		return err
	}
	sharedPrimaryForVerif = r.db.(*rocksdb.RocksDB)
	return nil
}

// NewRDBForVerif is what calls of NewRDB inside this package are redirected to (vrewrite replacecall): the
// RDB that NewRDB builds (write mutex, options, enabled iterator pool), around the shared handle when one is
// registered, a really opened database otherwise.
func NewRDBForVerif(path string) (*RDB, error) {
	db := sharedPrimaryForVerif
	if db == nil {
		return NewRDB(path)
	}
	writeOptions := rocksdb.NewWriteOptions(false, true, true, false, false)
	readOptions := rocksdb.NewDefaultReadOptions()
	iteratorPool := newIteratorPool(func() *rocksdb.Iterator { return db.CreateIterator(readOptions) })
	iteratorPool.enable()
	return &RDB{
		db:           sharedPrimary{db},
		writeMutex:   &sync.Mutex{},
		readOptions:  readOptions,
		writeOptions: writeOptions,
		logDir:       path,
		iteratorPool: iteratorPool,
	}, nil
}

// DumpSharedForVerif returns every key of the shared handle with its raw value.
func DumpSharedForVerif() (map[string][]byte, error) {
	db := sharedPrimaryForVerif
	ro := rocksdb.NewDefaultReadOptions()
	defer ro.FreeReadOptions()
	it := db.CreateIterator(ro)
	defer it.FreeIterator()
	out := map[string][]byte{}
	for it.SeekToFirst(); it.IsValid(); it.Next() {
		out[string(it.Key())] = append([]byte(nil), it.Value()...)
	}
	return out, it.GetError()
}

// ClearSharedForVerif deletes every key of the shared handle.
func ClearSharedForVerif() error {
	all, err := DumpSharedForVerif()
	if err != nil {
		return err
	}
	wo := rocksdb.NewWriteOptions(false, true, true, false, false)
	defer wo.FreeWriteOptions()
	for k := range all {
		if err := sharedPrimaryForVerif.Delete(wo, []byte(k)); err != nil {
			return err
		}
	}
	return nil
}
