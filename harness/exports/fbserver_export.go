//go:build verif

package fbserver

import (
	"net"

	"github.com/miekg/dns"
)

// ListenerForVerif describes one started listener of a Server (verification
// only): its network ("udp", "tcp", "tcp-tls"), the address it is really bound
// to (the configuration may say port 0) and the handler chain entry installed
// on it.
type ListenerForVerif struct {
	Net     string
	Addr    net.Addr
	Handler dns.Handler
}

// VerifAddrs lists the listeners created by Start, in creation order – the
// same information the package's own server_test.go reads from srv.servers.
func (srv *Server) VerifAddrs() []ListenerForVerif {
	var out []ListenerForVerif
	for _, s := range srv.servers {
		l := ListenerForVerif{Net: s.Net, Handler: s.Handler}
		if s.Listener != nil {
			l.Addr = s.Listener.Addr()
		} else if s.PacketConn != nil {
			l.Addr = s.PacketConn.LocalAddr()
		}
		out = append(out, l)
	}
	return out
}
