//go:build verif

package rdb

import (
	"errors"

	rocksdb "github.com/facebookincubator/dns/dnsrocks/cgo-rocksdb"
)

// C15: a recording / faulting layer between an RDB and its native handle (the unexported field db, an
// interface DBI). While an operation is bracketed by Begin/End it
//   - records every native call the operation makes (Get, GetMulti, Put, Delete, ExecuteBatch) with its size,
//   - can make the k-th of them fail: a failing read returns ErrInjectedForVerif instead of data (for GetMulti
//     in ONE chosen slot of the error slice, the other slots carry the real data), a failing write returns
//     ErrInjectedForVerif WITHOUT reaching RocksDB (a native write either happens completely or not at all:
//     that is RocksDB's own contract for one Put / Delete / Write call),
//   - takes a complete raw dump of the store immediately before every non-empty native write after the first
//     one: those are the intermediate states a reader (or a crash) could see between two native writes.
// Outside Begin/End every call is passed through untouched.

// ErrInjectedForVerif is what an injected native failure returns.
var ErrInjectedForVerif = errors.New("verif: injected failure of a native RocksDB call")

// NativeCallForVerif is one recorded native call: N = number of keys (GetMulti), number of operations in the
// native write batch (ExecuteBatch), 1 otherwise.
type NativeCallForVerif struct {
	Method string
	N      int
}

// FaultDBIForVerif implements DBI around the real handle.
type FaultDBIForVerif struct {
	DBI
	active        bool
	failAt        int // 1-based ordinal of the native call to fail; 0 = none
	failIdx       int // GetMulti: slot that carries the error
	calls         []NativeCallForVerif
	injected      bool
	effWrites     int
	intermediates []map[string][]byte
	dumpErr       error
}

// InjectFaultDBIForVerif puts the layer between rdb and its native handle.
func (rdb *RDB) InjectFaultDBIForVerif() *FaultDBIForVerif {
	f := &FaultDBIForVerif{DBI: rdb.db}
	rdb.db = f
	return f
}

// Begin starts recording one operation; failAt > 0 makes the failAt-th native call fail.
func (f *FaultDBIForVerif) Begin(failAt, failIdx int) {
	f.active, f.failAt, f.failIdx = true, failAt, failIdx
	f.calls, f.injected, f.effWrites, f.intermediates, f.dumpErr = f.calls[:0], false, 0, nil, nil
}

// End stops recording. calls is only valid until the next Begin.
func (f *FaultDBIForVerif) End() (calls []NativeCallForVerif, injected bool, nonEmptyWrites int, intermediates []map[string][]byte, dumpErr error) {
	f.active = false
	return f.calls, f.injected, f.effWrites, f.intermediates, f.dumpErr
}

// note records a call and says whether it has to fail.
func (f *FaultDBIForVerif) note(method string, n int) bool {
	if !f.active {
		return false
	}
	f.calls = append(f.calls, NativeCallForVerif{method, n})
	if f.failAt > 0 && len(f.calls) == f.failAt {
		f.injected = true
		return true
	}
	return false
}

// write is called for a native write that is about to reach RocksDB with n operations.
func (f *FaultDBIForVerif) write(n int) {
	if !f.active || n == 0 {
		return
	}
	f.effWrites++
	if f.effWrites >= 2 {
		d, err := f.DumpForVerif()
		if err != nil && f.dumpErr == nil {
			f.dumpErr = err
		}
		f.intermediates = append(f.intermediates, d)
	}
}

func (f *FaultDBIForVerif) Get(readOptions *rocksdb.ReadOptions, key []byte) ([]byte, error) {
	if f.note("Get", 1) {
		return nil, ErrInjectedForVerif
	}
	return f.DBI.Get(readOptions, key)
}

func (f *FaultDBIForVerif) GetMulti(readOptions *rocksdb.ReadOptions, keys [][]byte) ([][]byte, []error) {
	fail := f.note("GetMulti", len(keys))
	vals, errs := f.DBI.GetMulti(readOptions, keys)
	if fail && len(errs) > 0 {
		i := f.failIdx
		if i >= len(errs) {
			i = len(errs) - 1
		}
		vals[i], errs[i] = nil, ErrInjectedForVerif
	}
	return vals, errs
}

func (f *FaultDBIForVerif) Put(writeOptions *rocksdb.WriteOptions, key, value []byte) error {
	if f.note("Put", 1) {
		return ErrInjectedForVerif
	}
	f.write(1)
	return f.DBI.Put(writeOptions, key, value)
}

func (f *FaultDBIForVerif) Delete(writeOptions *rocksdb.WriteOptions, key []byte) error {
	if f.note("Delete", 1) {
		return ErrInjectedForVerif
	}
	f.write(1)
	return f.DBI.Delete(writeOptions, key)
}

func (f *FaultDBIForVerif) ExecuteBatch(batch *rocksdb.Batch, writeOptions *rocksdb.WriteOptions) error {
	n := batch.GetCount()
	if f.note("ExecuteBatch", n) {
		return ErrInjectedForVerif
	}
	f.write(n)
	return f.DBI.ExecuteBatch(batch, writeOptions)
}

// DumpForVerif returns every key of the OPEN store with its raw value (memtable included).
func (f *FaultDBIForVerif) DumpForVerif() (map[string][]byte, error) {
	ro := rocksdb.NewDefaultReadOptions()
	defer ro.FreeReadOptions()
	it := f.DBI.CreateIterator(ro)
	defer it.FreeIterator()
	out := map[string][]byte{}
	for it.SeekToFirst(); it.IsValid(); it.Next() {
		out[string(it.Key())] = append([]byte(nil), it.Value()...)
	}
	return out, it.GetError()
}
