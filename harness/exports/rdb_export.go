//go:build verif

package rdb

import (
	"os"

	rocksdb "github.com/facebookincubator/dns/dnsrocks/cgo-rocksdb"
)

// sharedDB is a real RocksDB handle shared by many short-lived RDB wrappers:
// closing a wrapper must not close the shared handle.
type sharedDB struct{ *rocksdb.RocksDB }

func (sharedDB) CloseDatabase() {}

// OpenSharedForVerif opens path as a secondary instance exactly as NewReader does.
func OpenSharedForVerif(path string) (*rocksdb.RocksDB, error) {
	logDir, err := os.MkdirTemp("", "rdb-log-verif")
	if err != nil {
		return nil, err
	}
	options := defaultOptions()
	db, err := rocksdb.OpenSecondary(path, logDir, options)
	if err != nil {
		options.FreeOptions()
		return nil, err
	}
	return db, nil
}

// NewReaderOnSharedForVerif builds what NewReader builds (read options, an
// enabled iterator pool, secondary mode) around an already opened handle.
func NewReaderOnSharedForVerif(db *rocksdb.RocksDB) *RDB {
	readOptions := rocksdb.NewDefaultReadOptions()
	iteratorPool := newIteratorPool(func() *rocksdb.Iterator { return db.CreateIterator(readOptions) })
	iteratorPool.enable()
	return &RDB{db: sharedDB{db}, readOptions: readOptions, secondary: true, iteratorPool: iteratorPool}
}

// FreePooledIteratorsForVerif frees the iterators currently sitting in the
// pool's channel without blocking (clean-up after an execution that was cut).
func (rdb *RDB) FreePooledIteratorsForVerif() {
	for {
		select {
		case e := <-rdb.iteratorPool.iterators:
			if e.iterator != nil {
				e.iterator.FreeIterator()
			}
		default:
			return
		}
	}
}
