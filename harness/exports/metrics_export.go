//go:build verif

package metrics

// WindowSamplesForVerif returns the raw sample values currently held by the
// sliding window of key (nil if the window does not exist), in storage order.
func (stats *Stats) WindowSamplesForVerif(key string) []int64 {
	stats.wlock.Lock()
	defer stats.wlock.Unlock()
	w, ok := stats.windows[key]
	if !ok {
		return nil
	}
	return w.Samples()
}
