#!/bin/bash
# Builds every harness once (warms the Go build cache) from files on disk only.
set -u
cd "$(dirname "$0")"
export GOFLAGS=-mod=mod GOPROXY=off GOSUMDB=off GOTOOLCHAIN=local CGO_ENABLED=1
mkdir -p .bin evidence/replays
rc=0
for d in harness/c[0-9][0-9]; do
  [ -d "$d" ] || continue
  id=$(basename "$d" | tr 'a-z' 'A-Z')
  VERIF_BUILD_ONLY=1 ./check "$id" quick >/dev/null 2>.bin/setup-$id.log || { echo "setup: build of $id failed"; cat .bin/setup-$id.log; rc=1; }
done
exit $rc
