// Reproducers for the C01 findings, using only the repository's exported API.
// Copy to dnsrocks/dnsserver/zz_c01_repro_test.go of an UNMODIFIED tree and run
//   go test -vet=off -count=1 -ldflags=-checklinkname=0 -run C01Repro ./dnsserver/
// Each test fails on the unmodified tree and passes with proposed-fixes.diff.
package dnsserver_test

import (
	"strings"
	"testing"

	"github.com/facebookincubator/dns/dnsrocks/dnsdata/rdb"
	"github.com/facebookincubator/dns/dnsrocks/dnsserver"
	"github.com/facebookincubator/dns/dnsrocks/dnsserver/stats"
	"github.com/miekg/dns"
)

const c01Skeleton = "Zexample.com,a.ns.example.com,hostmaster.example.com,1,7200,1800,604800,120,300,,\n" +
	"&example.com,192.0.2.53,a.ns.example.com,3600,,\n" +
	"Mexample.com,m1\nM*.example.com,m1\n%aa,10.0.0.0/8,m1\n%bb,192.168.0.0/16,m1\n"

func c01Ask(t *testing.T, v2 bool, data, qtype, qname, client string) *dns.Msg {
	dir := t.TempDir()
	if _, err := rdb.Compile(strings.NewReader(c01Skeleton+data), 1, dir, rdb.CompilationOptions{NumCPU: 1, BatchNumParallel: 1, UseV2KeySyntax: v2}); err != nil {
		t.Fatal(err)
	}
	h, err := dnsserver.NewFBDNSDBBasic(dnsserver.HandlerConfig{}, dnsserver.DBConfig{Path: dir, Driver: "rocksdb", ReloadTimeout: 1 << 40}, dnsserver.CacheConfig{}, &dnsserver.DummyLogger{}, &stats.DummyStats{})
	if err != nil {
		t.Fatal(err)
	}
	if err := h.Load(); err != nil {
		t.Fatal(err)
	}
	defer h.Close()
	rec, err := h.QuerySingle(qtype, qname, client, "", 8)
	if err != nil {
		t.Fatal(err)
	}
	return rec.Msg
}

// v2 keys: the wildcard of the parent zone answers a name of the nested zone.
func TestC01ReproWildcardCrossesZoneCut(t *testing.T) {
	data := "'*.example.com,wild,300,,\n.sub.example.com,192.0.2.54,a,3600,,\n"
	if m := c01Ask(t, false, data, "TXT", "nx.sub.example.com", "8.8.8.8"); m.Rcode != dns.RcodeNameError {
		t.Errorf("v1 keys: want NXDOMAIN, got\n%v", m)
	}
	if m := c01Ask(t, true, data, "TXT", "nx.sub.example.com", "8.8.8.8"); m.Rcode != dns.RcodeNameError || len(m.Answer) != 0 {
		t.Errorf("v2 keys: want NXDOMAIN from zone sub.example.com, got\n%v", m)
	}
}

// v2 keys: a key that the closest-key search established to be absent is then
// read from the per-request cache with the data of its predecessor key.
func TestC01ReproCachedNeighbourKey(t *testing.T) {
	// (a) a client in location bb is served the NS record declared for location aa only
	m := c01Ask(t, true, "&deleg.example.com,192.0.2.55,ns.deleg.example.com,3600,,\n&deleg.example.com,,ns2.other.org,,,aa\n", "A", "deleg.example.com", "192.168.1.1")
	if len(m.Ns) != 1 {
		t.Errorf("referral for a bb client: want exactly NS ns.deleg.example.com., got\n%v", m)
	}
	// (b) the NS set is doubled for any located client
	m = c01Ask(t, true, "&deleg.example.com,192.0.2.55,ns.deleg.example.com,3600,,\n", "A", "deleg.example.com", "10.1.1.1")
	if len(m.Ns) != 1 {
		t.Errorf("referral for an aa client: want one NS, got\n%v", m)
	}
	// (c) the address of x.w is served as the address of another name
	m = c01Ask(t, true, "+x.w.example.com,192.0.2.12,300,,\nH*.w.example.com,svc.example.com,300,,1,port=8443\n", "HTTPS", "nx.nx.w.example.com", "8.8.8.8")
	if len(m.Extra) != 0 {
		t.Errorf("nx.nx.w.example.com has no address record, got additional section\n%v", m)
	}
}

// all backends: a B/H line with an empty TTL field is served with TTL 0, every other line type with 86400.
func TestC01ReproSVCBDefaultTTL(t *testing.T) {
	m := c01Ask(t, false, "Bsvc.example.com,target.example.com,,,2,port=8443\n'svc.example.com,text,,,\n", "ANY", "svc.example.com", "8.8.8.8")
	for _, rr := range m.Answer {
		if rr.Header().Ttl != 86400 {
			t.Errorf("want default TTL 86400, got %v", rr)
		}
	}
}
